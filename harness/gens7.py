"""G7: diverse specifications for the compiler's *metrics mode* (Einsum + Mapping + Architecture + Bindings + Format).

`g7(rng, **opts) -> case` returns a case in the format of gens.py (decl, eins, mapping, ext, env, tags) that
additionally carries case["architecture"], case["bindings"], case["format"] (the YAML sub-dicts below the top-level
keys of the same names; gens.to_yaml_dict copies them) and whose mapping has a `spacetime` entry for every Einsum.

Everything random derives from the `random.Random` handed in.  The generator never calls into the compiler: the
final (partitioned, loop-ordered) rank names of every tensor are computed here, so that loop-order, spacetime,
bindings and format name the same ranks.  Component names are unique over all configurations of one architecture
(the compiler keys components by name globally); level names may repeat.

What is varied (every choice is recorded in case["tags"]):
  Einsums       mm / mv / elementwise with reduction / 3-operand products / sddmm / 3-D dot / outer / copy / take /
                1-D convolution / sigma-style mm; cascades of 2-3 Einsums (gamma-like, outerspace-like, random chains);
                rank names from K J KI PI R H / M I MI N P X U
  mapping       rank-order, uniform_shape partitioning (1-2 ranks, 1-2 levels, literal or symbolic sizes), flatten() of
                the two ranks of an input, sigma.yaml's shape + flatten + occupancy, random (level-sorted, rarely
                inverted) loop orders or the default one, 0-2 space ranks, .pos/.coord styles, opt: slip
  architecture  1-2 configurations; 1-3 levels deep with `Name[0..N]` instance ranges, pipeline-stage siblings; DRAM(s),
                Buffets, Caches, Compute, Intersectors of the three types, Mergers, Sequencers
  bindings      memory chains (one memory per depth) per tensor with coord/payload/elem entries, evict-on, lazy/eager;
                compute ops; intersectors (leader first or later); mergers for swizzled tensors; several sequencers with
                one or several ranks; empty binding lists; bindings naming the non-loop format
  format        one or two named formats per tensor (the second one for another Einsum's loop order or a decoy), U/C,
                cbits/pbits present, 0 or omitted, layout: interleaved

Classes of cases that the *unchanged* compiler is known to miscompile are still generated (with low probability)
and carry one of the tags in KNOWN_BAD_TAGS; cases that are expected to be rejected / to crash the compiler carry a
tag in EXPECT_REJECT_TAGS.  Cases whose emitted program needs a runtime stand-in that minifiber does not have carry a
tag in MINIFIBER_GAP_TAGS (the self-test re-runs them with the stand-ins patched in memory).

Self-test:  cd /verif/harness && /venv/bin/python gens7.py <seed> <n>   [-v] [-x: dump one YAML per failure class]
"""
import os, sys
sys.path.insert(0, os.path.dirname(os.path.abspath(__file__)))
from gens import V, level_sorted

KNOWN_BAD_TAGS = ("leader_not_first_factor", "eager_root_after_lookup_rank")      # metrics_partitioned_index_math: repaired by b32f93e, now an ordinary class
EXPECT_REJECT_TAGS = ("empty_seq_binding", "empty_compute_binding", "empty_merger_binding", "intersector_no_coiteration",
                      "intersector_on_projected_rank", "two_finger_three_way", "buffer_source_no_bandwidth",
                      "eager_evict_root_only", "eager_rank0_output", "eager_on_projected_rank", "format_names_foreign_rank")
MINIFIBER_GAP_TAGS = ("eager_write_flag", "traffic_rank_map")

RANKS_CON = ["K", "J", "KI", "PI", "R", "H"]
RANKS_OUT = ["M", "I", "MI", "N", "P", "X", "U"]
INPUT_NAMES = ["A", "B", "C", "D", "E", "G"]

# ------------------------------------------------------------------------------------------ Einsums


def _t(name, ranks):
    return ("t", name, [V(r) for r in ranks])


class Ein:
    """one Einsum: out[oranks] = prod / take of factors (name, ranks); conv carries (Q, S, W)"""

    def __init__(self, out, oranks, factors, kind="times", sel=None, conv=None, family=""):
        self.out, self.oranks, self.factors, self.kind, self.sel = out, list(oranks), [(n, list(r)) for n, r in factors], kind, sel
        self.conv = conv
        self.family = family

    def ranks(self):
        """iteration-space ranks (for conv: Q and S; W is a tensor rank only)"""
        rs = []
        if self.conv:
            return [self.conv[0], self.conv[1]]
        for r in self.oranks:
            if r not in rs:
                rs.append(r)
        for _, fr in self.factors:
            for r in fr:
                if r not in rs:
                    rs.append(r)
        return rs

    def tensors(self):
        return [self.out] + [n for n, _ in self.factors]

    def tensor_ranks(self, name):
        if name == self.out:
            return list(self.oranks)
        for n, r in self.factors:
            if n == name:
                return list(r)
        raise KeyError(name)

    def to_case_ein(self):
        if self.conv:
            q, s, w = self.conv
            fs = []
            for n, r in self.factors:
                if r == [w]:
                    fs.append(("t", n, [[(1, q.lower()), (1, s.lower())]]))
                else:
                    fs.append(_t(n, r))
            return dict(out=self.out, oidx=[V(r) for r in self.oranks], terms=[dict(kind="times", factors=fs, sel=None)])
        return dict(out=self.out, oidx=[V(r) for r in self.oranks],
                    terms=[dict(kind=self.kind, factors=[_t(n, r) for n, r in self.factors], sel=self.sel)])


def _shuffled(rng, xs):
    xs = list(xs)
    rng.shuffle(xs)
    return xs


def pick_ranks(rng):
    k, k2 = rng.sample(RANKS_CON, 2)
    m, n, p = rng.sample(RANKS_OUT, 3)
    if rng.random() < 0.4:
        k, m, n = "K", "M", "N"
        k2 = rng.choice([r for r in RANKS_CON if r != "K"])
        p = rng.choice([r for r in RANKS_OUT if r not in ("M", "N")])
    return k, k2, m, n, p


def single_einsum(rng, family, out="Z", names=None, rk=None):
    """one product Einsum of the given family"""
    K, K2, M, N, P = rk or pick_ranks(rng)
    nm = list(names or INPUT_NAMES)
    a, b, c = nm[0], nm[1], nm[2]
    sh = lambda xs: _shuffled(rng, xs)
    if family == "mm":
        return Ein(out, [M, N], [(a, sh([K, M])), (b, sh([K, N]))], family=family)
    if family == "sigma":
        return Ein(out, sh([M, N]), [(a, sh([K, M])), (b, sh([K, N]))], family=family)
    if family == "mv":
        return Ein(out, [M], [(a, sh([K, M])), (b, [K])], family=family)
    if family == "ewred":
        return Ein(out, [M], [(a, sh([K, M])), (b, sh([K, M]))], family=family)
    if family == "prod3":
        return Ein(out, [M], [(a, sh([K, M])), (b, sh([K, M])), (c, [K])], family=family)
    if family == "sddmm":
        return Ein(out, sh([M, N]), [(a, sh([M, N])), (b, sh([K, M])), (c, sh([K, N]))], family=family)
    if family == "dot3d":
        o = sh([K, K2, M])
        return Ein(out, [], [(a, list(o)), (b, list(o))], family=family)
    if family == "outer":
        return Ein(out, sh([M, N]), [(a, [M]), (b, [N])], family=family)
    if family == "copy":
        return Ein(out, sh([K, M]), [(a, sh([K, M]))], family=family)
    if family == "ew3":
        return Ein(out, sh([K, M]), [(a, sh([K, M])), (b, sh([K, M])), (c, sh([K, M]))], family=family)
    if family == "take":
        return Ein(out, sh([K, M, N]), [(a, sh([K, M])), (b, sh([K, N]))], kind="take", sel=rng.randrange(2), family=family)
    if family == "conv":
        Q, S, W = rng.choice([("Q", "S", "W"), ("P", "R", "H"), ("Q", "S", "W")])
        fs = [("I", [W]), ("F", [S])]
        if rng.random() < 0.3:
            fs.reverse()
        return Ein("O" if out == "Z" else out, [Q], fs, conv=(Q, S, W), family=family)
    raise ValueError(family)


SINGLE_FAMILIES = ["mm", "mm", "mm", "mv", "mv", "ewred", "ewred", "prod3", "prod3", "sddmm", "dot3d", "outer", "copy",
                   "ew3", "take", "conv", "conv", "sigma", "sigma"]


def gen_einsums(rng, tags):
    """-> [Ein], decl (declaration order), ext"""
    x = rng.random()
    if x < 0.62:
        fam = rng.choice(SINGLE_FAMILIES)
        eins = [single_einsum(rng, fam)]
        tags.append("ein:" + fam)
    else:
        eins = gen_cascade(rng, tags)
    decl, ext = {}, {}
    for e in eins:
        for n, r in e.factors:
            decl.setdefault(n, list(r))
        decl.setdefault(e.out, list(e.oranks))
    for e in eins:
        if e.conv:
            q, s, w = e.conv
            ext[q], ext[s] = rng.randint(1, 5), rng.randint(1, 3)
            ext[w] = ext[q] + ext[s] - 1
    for t, rs in decl.items():
        for r in rs:
            ext.setdefault(r, rng.randint(1, 5))
    return eins, decl, ext


def gen_cascade(rng, tags):
    kind = rng.choice(["gamma", "outerspace", "chain", "chain", "chain", "chain"])
    K, K2, M, N, P = pick_ranks(rng)
    sh = lambda xs: _shuffled(rng, xs)
    if kind == "gamma":
        ar, br = sh([K, M]), sh([K, N])
        e0 = Ein("T", sh([K, M, N]), [("A", ar), ("B", br)], kind="take", sel=1, family="take")
        fs = [("T", list(e0.oranks)), ("A", ar)]
        if rng.random() < 0.4:
            fs.reverse()
        e1 = Ein("Z", sh([M, N]), fs, family="reduce_TA")
        eins = [e0, e1]
    elif kind == "outerspace":
        o = sh([K, M, N])
        e0 = Ein("T0", o, [("A", sh([K, M])), ("B", sh([K, N]))], family="mm3")
        e1 = Ein("T1", o, [("T0", o)], family="copy")
        e2 = Ein("Z", sh([M, N]), [("T1", o)], family="reduce1")
        eins = [e0, e1, e2] if rng.random() < 0.6 else [e0, Ein("Z", sh([M, N]), [("T0", o)], family="reduce1")]
    else:
        n = rng.choice([2, 2, 3])
        fam = rng.choice(["mm", "mm", "mv", "ewred", "prod3", "outer", "copy", "ew3"])
        names = list(INPUT_NAMES)
        e0 = single_einsum(rng, fam, out="T" if n == 2 else "T0", names=names, rk=(K, K2, M, N, P))
        used = len(e0.factors)
        eins = [e0]
        extra = [r for r in (P, K2, K) if r not in e0.ranks()]
        for i in range(1, n):
            prev = eins[-1]
            out = "Z" if i == n - 1 else "T%d" % i
            pr = list(prev.oranks)
            # a new operand over a non-empty subset of the previous result's ranks, possibly with one new rank
            sub = rng.sample(pr, rng.randint(1, len(pr))) if pr else []
            newr = []
            if extra and (not sub or rng.random() < 0.35):
                newr = [extra.pop(0)]
            opr = sh(sub + newr)
            allr = pr + newr
            if not allr:
                break
            # output: a subset of all ranks (maybe empty -> full reduction), at least one Einsum rank exists
            keep = [r for r in allr if rng.random() < 0.6]
            fs = [(prev.out, pr)]
            if opr and rng.random() < 0.85:
                fs.append((names[used], opr))
                used += 1
            else:
                keep = [r for r in pr if r in keep]
            if rng.random() < 0.4:
                fs.reverse()
            eins.append(Ein(out, sh(keep), fs, family="chain"))
        if len(eins) == 1:
            eins[0].out = "Z"
    tags.append("cascade%d" % len(eins))
    tags.append("cascade:" + kind)
    for e in eins:
        tags.append("ein:" + e.family)
    return eins


# ------------------------------------------------------------------------------------------ mapping

def expand_rank(r, parts):
    if r in parts:
        n = len(parts[r])
        return [r + str(j) for j in range(n, -1, -1)]
    return [r]


class MapInfo:
    """mapping of one Einsum: parts {rank: [size strings]}, flat (r1, r2) | None, loop [final ranks], space/time"""

    def __init__(self):
        self.parts, self.flat, self.loop, self.space, self.time = {}, None, [], [], []
        self.conv = None
        self.final_override = None     # sigma-style mappings: {frozenset(root ranks): final order}
        self.pos_override = {}

    def flat_name(self):
        return "".join(self.flat) if self.flat else None

    def pos(self, x, tranks=None):
        """loop position at which the final tensor rank x is iterated"""
        if x in self.pos_override:
            return self.pos_override[x]
        if x in self.loop:
            return self.loop.index(x)
        if self.flat and x in self.flat:
            return self.loop.index(self.flat_name())
        if self.conv:
            # conv: a tensor rank that is not a loop rank is available once all index variables are
            return len(self.loop) - 1
        raise KeyError(x)

    def final(self, ranks):
        """final rank names of a tensor with root ranks `ranks`, in loop (concordant) order"""
        rs = list(ranks)
        if self.final_override is not None:
            return list(self.final_override[frozenset(rs)])
        if self.flat and all(x in rs for x in self.flat):
            rs = [r for r in rs if r not in self.flat] + [self.flat_name()]
        exp = []
        for r in rs:
            exp += expand_rank(r, self.parts)
        idx = {x: i for i, x in enumerate(exp)}
        exp.sort(key=lambda x: (self.pos(x), idx[x]))
        return exp

    def storage_expanded(self, storage):
        """the stored rank order with partitioned ranks expanded in place (the order before the concordant swizzle)"""
        exp = []
        for r in storage:
            exp += expand_rank(r, self.parts)
        return exp


def gen_mapping(rng, eins, decl, ext, env, tags):
    mapping = {"rank-order": {}, "partitioning": {}, "loop-order": {}, "spacetime": {}}
    infos = {}
    # rank orders of tensors
    if rng.random() < 0.5:
        for t, rs in decl.items():
            if len(rs) > 1 and rng.random() < 0.5:
                mapping["rank-order"][t] = _shuffled(rng, rs)
            elif rng.random() < 0.3:
                mapping["rank-order"][t] = list(rs)
        if mapping["rank-order"]:
            tags.append("rank-order")
    # partitioning is decided per rank for the whole cascade (a tensor shared by two Einsums then has the same
    # final rank names in both); with low probability every Einsum decides on its own
    cascade = len(eins) > 1
    all_ranks = []
    for e in eins:
        if not e.conv:
            for r in e.ranks():
                if r not in all_ranks:
                    all_ranks.append(r)
    gparts = {}
    if all_ranks and rng.random() < 0.33:
        npart = 1 if rng.random() < 0.75 or len(all_ranks) < 2 else 2
        for r in rng.sample(all_ranks, npart):
            nl = 1 if rng.random() < 0.8 else 2
            sizes = sorted([rng.randint(1, 4) for _ in range(nl)], reverse=True)
            stack = []
            for i, sz in enumerate(sizes):
                lvl = nl - 1 - i
                if rng.random() < 0.3:
                    nm = r + str(lvl)          # the level-extent name, as in extensor.yaml
                    env[nm] = sz
                    stack.append("uniform_shape(%s)" % nm)
                    tags.append("symbolic_size")
                else:
                    stack.append("uniform_shape(%d)" % sz)
            gparts[r] = stack
            tags.append("part%d" % nl)
    per_einsum_parts = cascade and gparts and rng.random() < 0.2
    if per_einsum_parts:
        tags.append("cascade_partitioning_differs")
    for e in eins:
        mi = MapInfo()
        allr = e.ranks()
        explicit_loop = rng.random() < 0.85
        if e.conv:
            mi.conv = e.conv
            gen_conv_mapping(rng, e, mi, mapping, env, tags)
        elif e.family == "sigma" and not any(r in gparts for r in allr):
            gen_sigma_mapping(rng, e, mi, mapping, ext, env, tags)
            explicit_loop = True
        else:
            flat_ok = [t for t in e.tensors() if t != e.out and len(e.tensor_ranks(t)) == 2] if e.kind == "times" else []
            mine = [r for r in allr if r in gparts and not (per_einsum_parts and rng.random() < 0.5)]
            if not mine and flat_ok and len(allr) <= 3 and rng.random() < (0.05 if cascade else 0.2):
                # flatten the two ranks of one input (the other tensors holding both are flattened along)
                t = rng.choice(flat_ok)
                tup = tuple(_shuffled(rng, e.tensor_ranks(t)))
                mi.flat = tup
                mapping["partitioning"].setdefault(e.out, {})["(%s, %s)" % tup] = ["flatten()"]
                tags.append("flatten")
                # metrics mode always gives the output an explicit shape; for a flattened output rank the shape names
                # the flattened rank itself (shape=[MK]), which the user then has to supply
                env[tup[0] + tup[1]] = ext[tup[0]] * ext[tup[1]]
                if all(x in e.oranks for x in tup):
                    tags.append("flattened_output")
                explicit_loop = True
            for r in mine:
                mi.parts[r] = gparts[r]
                mapping["partitioning"].setdefault(e.out, {})[r] = list(gparts[r])
            exp = []
            for r in allr:
                if mi.flat and r in mi.flat:
                    if mi.flat_name() not in exp:
                        exp.append(mi.flat_name())
                else:
                    exp += expand_rank(r, mi.parts)
            if rng.random() < 0.12 and mi.parts:
                mi.loop = _shuffled(rng, exp)
                if mi.loop != level_sorted_like(mi.loop):
                    tags.append("inverted_levels")
            else:
                mi.loop = level_sorted(rng, exp)
            if not explicit_loop:
                # the compiler's default order: Einsum ranks (output ranks first, then the others in order of
                # appearance), partitioned in place
                mi.loop = exp
        if explicit_loop or e.conv:
            if mi.loop:
                mapping["loop-order"][e.out] = list(mi.loop)
        else:
            tags.append("default_loop_order")
        # spacetime
        k = rng.choice([0, 0, 1, 1, 1, 2])
        k = min(k, len(mi.loop))
        space = sorted(rng.sample(mi.loop, k), key=mi.loop.index)
        time = [r for r in mi.loop if r not in space]
        mi.space, mi.time = space, time

        def style(r):
            x = rng.random()
            return r if x < 0.7 else (r + ".pos" if x < 0.85 else r + ".coord")
        ent = {"space": [style(r) for r in space], "time": [style(r) for r in time]}
        if any("." in s for s in ent["space"] + ent["time"]):
            tags.append("spacetime_styles")
        if rng.random() < 0.15:
            ent["opt"] = "slip"
            tags.append("slip")
        mapping["spacetime"][e.out] = ent
        tags.append("space%d" % k)
        infos[e.out] = mi
    return mapping, infos


def level_sorted_like(loop):
    """the same loop order with the levels of every root sorted outermost first"""
    from gens import root_of
    byroot = {}
    for x in loop:
        byroot.setdefault(root_of(x), []).append(x)
    for root in byroot:
        byroot[root].sort(key=lambda x: -int(x[len(root):] or 0))
    idx = {root: 0 for root in byroot}
    out = []
    for x in loop:
        root = root_of(x)
        out.append(byroot[root][idx[root]])
        idx[root] += 1
    return out


def gen_conv_mapping(rng, e, mi, mapping, env, tags):
    Q, S, W = e.conv
    if rng.random() < 0.12:
        # partitioned index math: known to emit an unbound position variable in metrics mode
        sz = rng.randint(1, 3)
        mi.parts[Q] = ["uniform_shape(%d)" % sz]
        mi.parts[W] = ["follow(%s)" % Q]
        mapping["partitioning"][e.out] = {Q: ["uniform_shape(%d)" % sz], W: ["follow(%s)" % Q]}
        env[Q + "0"] = sz
        env[W + "0"] = sz
        mi.loop = rng.choice([[Q + "1", Q + "0", S], [Q + "1", S, Q + "0"], [S, Q + "1", Q + "0"]])
        tags.append("metrics_partitioned_index_math")
    else:
        mi.loop = rng.choice([[Q, S], [Q, S], [S, Q], [W, Q], [Q, W]])
    tags.append("conv_loop:" + ",".join(mi.loop))


def gen_sigma_mapping(rng, e, mi, mapping, ext, env, tags):
    """the mapping of sigma.yaml: K split by shape, (M, K0) flattened, optionally MK0 split by occupancy of A"""
    (a, ar), (b, br) = e.factors
    K = [r for r in ar if r in br][0]
    M = [r for r in ar if r != K][0]
    N = [r for r in br if r != K][0]
    K1, K0 = K + "1", K + "0"
    flat = M + K0
    sz = rng.randint(1, 3)
    parts = {K: ["uniform_shape(%d)" % sz], "(%s, %s)" % (M, K0): ["flatten()"]}
    occ = rng.random() < 0.6
    if occ:
        parts[flat] = ["uniform_occupancy(%s.%d)" % (a, rng.randint(1, 3))]
        inner = [flat + "1", flat + "0"]
        tags.append("sigma_occupancy")
    else:
        inner = [flat]
    mapping["partitioning"][e.out] = parts
    # N goes anywhere below K1
    loop = [K1] + inner
    loop.insert(rng.randint(1, len(loop)), N)
    mi.loop = loop
    mi.parts = {K: parts[K]}
    mi.flat = (M, K0)
    bottom = inner[-1]
    pb, pn = loop.index(bottom), loop.index(N)
    mi.pos_override = {M: pb, K0: pb}
    zf = [N, M] if pn < pb else [M, N]
    bf = [K1, N, K0] if pn < pb else [K1, K0, N]
    mi.final_override = {frozenset(ar): [K1] + inner, frozenset(br): bf, frozenset(e.oranks): zf}
    env[K0] = sz
    env[flat] = ext[M] * ext[K]
    tags.append("sigma_mapping")


# ------------------------------------------------------------------------------------------ architecture

class Comp:
    def __init__(self, name, cls, depth, num, attrs, branch=0):
        self.name, self.cls, self.depth, self.num, self.attrs, self.branch = name, cls, depth, num, attrs, branch

    def is_mem(self):
        return self.cls in ("DRAM", "Buffet", "Cache")


def level_name(rng, base, ranged, tags):
    if ranged:
        n = rng.choice([1, 2, 3, 7, 15, 31, 127])
        return "%s[0..%d]" % (base, n), n + 1
    return base, 1


def gen_config(rng, cfg_idx, tags):
    """-> (yaml level list, [Comp]).  Configuration i > 0 suffixes every component name with `_c<i>`, or (40%) reuses
    the names of configuration 0 (components are looked up in the Einsum's own configuration).  Level names may repeat."""
    classic = rng.random() < 0.45
    if classic:
        # the textbook hierarchy: DRAM at the root, a shared buffer per chip, a private buffer per PE
        depth = 3
        bases = rng.choice([["System", "Chip", "PE"], ["System", "Cluster", "Core"], ["Top", "PT", "PE"]])
        ranged = [False, rng.random() < 0.75, rng.random() < 0.9]
        tags.append("arch_classic")
    else:
        depth = rng.choice([1, 2, 2, 3, 3, 3])
        bases = rng.choice([["System", "Chip", "PE"], ["level0", "level1", "level2"], ["System", "Cluster", "Core"], ["Top", "PT", "PE"]])
        ranged = [False] + [rng.random() < 0.7 for _ in range(depth - 1)]
    levels = []
    for d in range(depth):
        nm, num = level_name(rng, bases[d], ranged[d], tags)
        levels.append({"name": nm, "local": [], "subtree": [], "_num": num})
    freq = rng.choice([1000, 2048, 500000000, 1000000000, 1500000000])
    levels[0]["attributes"] = {"clock_frequency": freq}
    # siblings at the deepest level (pipeline stages like gamma)
    siblings = []
    if depth >= 2 and rng.random() < 0.3:
        for i in range(rng.randint(1, 2)):
            nm, num = level_name(rng, "Stage%d" % i, rng.random() < 0.7, tags)
            siblings.append({"name": nm, "local": [], "subtree": [], "_num": num})
        tags.append("arch_siblings")
    comps = []
    sfx = "" if cfg_idx == 0 else "_c%d" % cfg_idx
    if cfg_idx > 0 and rng.random() < 0.4:
        # configurations may reuse component names (as the bundled OuterSPACE specification does)
        sfx = ""
        tags.append("reused_component_names")

    def mk(base, cls, class_str, attrs):
        return {"name": base + sfx, "class": class_str, "attributes": attrs}, cls

    def place(comp_yaml, cls, d, sib=None):
        lvl = siblings[sib] if sib is not None else levels[d]
        lvl["local"].append(comp_yaml)
        comps.append(Comp(comp_yaml["name"], cls, d if sib is None else depth - 1, lvl["_num"], comp_yaml.get("attributes", {}),
                          branch=0 if sib is None else sib + 1))

    def any_place(comp_yaml, cls, prefer=None):
        if siblings and rng.random() < 0.5:
            place(comp_yaml, cls, None, rng.randrange(len(siblings)))
        elif prefer is not None and rng.random() < 0.7:
            place(comp_yaml, cls, prefer)
        else:
            place(comp_yaml, cls, rng.randrange(depth))

    bw = lambda: rng.choice([128, 512, 4096, 1099511627776, 586314575512])

    def buf_attrs(p_bw):
        attrs = {"width": rng.choice([8, 32, 64, 96]), "depth": rng.choice([16, 128, 1024, 8192, "inf"])}
        if rng.random() < p_bw:
            attrs["bandwidth"] = bw()
        return attrs

    def cstr(cls):
        return cls if rng.random() < 0.8 else cls.lower()

    # memories
    if classic:
        place(*mk("MainMemory", "DRAM", "DRAM", {"bandwidth": bw()}), 0)
        cls = rng.choice(["Buffet", "Buffet", "Cache"])
        place(*mk(rng.choice(["LLB", "L2"]), cls, cstr(cls), buf_attrs(0.9)), 1)
        cls = rng.choice(["Buffet", "Buffet", "Buffet", "Cache"])
        y, cls = mk(rng.choice(["PEB", "RegFile"]), cls, cstr(cls), buf_attrs(0.3))
        if siblings and rng.random() < 0.3:
            place(y, cls, None, rng.randrange(len(siblings)))
        else:
            place(y, cls, 2)
        if rng.random() < 0.3:
            cls = rng.choice(["Buffet", "Cache"])
            place(*mk("SPM", cls, cstr(cls), buf_attrs(0.5)), rng.choice([1, 2, 2]))
        if rng.random() < 0.15:
            place(*mk("HBM", "DRAM", "dram", {"bandwidth": bw()}), 1)
            tags.append("dram2")
    else:
        if rng.random() < 0.9:
            place(*mk("MainMemory", "DRAM", "DRAM", {"bandwidth": bw()}), 0)
        else:
            tags.append("no_dram")
        if depth >= 2 and rng.random() < 0.25:
            place(*mk("HBM", "DRAM", rng.choice(["DRAM", "dram"]), {"bandwidth": bw()}), 1)
            tags.append("dram2")
        nbuf = rng.choice([0, 1, 1, 2, 2, 3])
        buf_names = ["LLB", "RegFile", "L1", "SPM"]
        for i in range(nbuf):
            cls = rng.choice(["Buffet", "Buffet", "Cache"])
            d = min(depth - 1, i + (1 if depth > 1 else 0)) if rng.random() < 0.7 else rng.randrange(depth)
            y, cls = mk(buf_names[i], cls, cstr(cls), buf_attrs(0.6))
            if siblings and d == depth - 1 and rng.random() < 0.4:
                place(y, cls, None, rng.randrange(len(siblings)))
            else:
                place(y, cls, d)
    # compute
    fu_level = depth - 1 if classic else None
    for nm, ty in (("FPMul", "mul"), ("FPAdd", "add")):
        if rng.random() < 0.85:
            any_place(*mk(nm, "Compute", rng.choice(["Compute", "compute"]), {"type": ty}), prefer=fu_level)
    if rng.random() < 0.3:
        any_place(*mk("ALU", "Compute", "Compute", {"type": rng.choice(["mul", "add"])}), prefer=fu_level)
    # intersectors
    for i in range(rng.choice([0, 1, 1, 2, 3])):
        ty = rng.choice(["two-finger", "skip-ahead", "leader-follower", "leader-follower"])
        any_place(*mk("Isect%d" % i, "Intersector", rng.choice(["Intersector", "intersector"]), {"type": ty}))
    # mergers
    for i in range(rng.choice([0, 0, 1, 1, 2])):
        attrs = {"inputs": rng.choice([2, 64, "inf"]), "comparator_radix": rng.choice([2, 64, "inf"])}
        if rng.random() < 0.7:
            attrs["outputs"] = rng.choice([1, 2])
        if rng.random() < 0.7:
            attrs["order"] = rng.choice(["fifo", "opt"])
        if rng.random() < 0.6:
            attrs["reduce"] = False
        any_place(*mk("Merger%d" % i, "Merger", "Merger", attrs))
    # sequencers
    for i in range(rng.choice([0, 1, 2, 2, 3])):
        any_place(*mk("Seq%d" % i, "Sequencer", "Sequencer", {"num_ranks": rng.randint(1, 4)}))
    # assemble
    for d in range(depth - 1):
        levels[d]["subtree"].append(levels[d + 1])
    if siblings:
        levels[depth - 2]["subtree"].extend(siblings)
        if rng.random() < 0.5:
            # the chain's deepest level comes last (the traffic path walks the last subtree first)
            levels[depth - 2]["subtree"].reverse()

    def clean(lvl):
        out = {"name": lvl["name"]}
        if "attributes" in lvl:
            out["attributes"] = lvl["attributes"]
        if lvl["local"] or rng.random() < 0.2:
            out["local"] = lvl["local"]
        if lvl["subtree"]:
            out["subtree"] = [clean(s) for s in lvl["subtree"]]
        return out
    tags.append("arch_depth%d" % depth)
    nums = sorted(set(l["_num"] for l in levels + siblings))
    if len(nums) >= 3:
        tags.append("three_instance_counts")
    return [clean(levels[0])], comps


# ------------------------------------------------------------------------------------------ formats

def gen_formats(rng, eins, decl, storage, infos, tags):
    """-> format yaml, loopfmt {(einsum, tensor): format name} for the format concordant with that Einsum's loop order"""
    orders = {}     # tensor -> [(final order, [einsums])]
    for e in eins:
        mi = infos[e.out]
        for t in e.tensors():
            fo = mi.final(e.tensor_ranks(t) if not e.conv else decl[t])
            lst = orders.setdefault(t, [])
            for o, es in lst:
                if o == fo:
                    es.append(e.out)
                    break
            else:
                lst.append((fo, [e.out]))
    fmt, loopfmt = {}, {}
    fnames = [["default", "alt"], ["CSF", "Swizzled"], ["default", "LinkedLists"]]
    for t, lst in orders.items():
        if rng.random() < 0.15:
            tags.append("tensor_without_format")
            continue
        names = rng.choice(fnames)
        fmt[t] = {}
        for i, (fo, es) in enumerate(lst[:2]):
            fmt[t][names[i]] = rank_formats(rng, fo, tags)
            for en in es:
                loopfmt[(en, t)] = names[i]
        if len(lst) == 1 and len(lst[0][0]) >= 2 and rng.random() < 0.3:
            # a second format in a rank order that is not concordant with the loop order
            fo = list(lst[0][0])
            other = _shuffled(rng, fo)
            if other != fo:
                fmt[t][names[1]] = rank_formats(rng, other, tags)
                tags.append("decoy_format")
        if len(fmt[t]) == 2:
            tags.append("two_formats")
    # every format of a tensor is looked at in every Einsum that uses the tensor: a rank name that only exists under
    # another Einsum's partitioning is not a node of this Einsum's partitioning graph (NetworkXError)
    for e in eins:
        mi = infos[e.out]
        valid = set(decl[x][0] for x in e.tensors() if e.conv and decl[x]) | set(e.ranks())
        for r in list(valid):
            valid.update(expand_rank(r, mi.parts))
        if mi.flat:
            valid.add(mi.flat_name())
        valid.update(mi.loop)
        if mi.final_override is not None:
            for o in mi.final_override.values():
                valid.update(o)
        for t in e.tensors():
            for f, spec in fmt.get(t, {}).items():
                if any(r not in valid for r in spec["rank-order"]):
                    tags.append("format_names_foreign_rank")
    return fmt, loopfmt


def rank_formats(rng, order, tags):
    spec = {"rank-order": list(order)}
    for i, r in enumerate(order):
        leaf = i == len(order) - 1
        f = rng.choice(["U", "C"])
        ent = {"format": f}
        x = rng.random()
        if f == "U":
            if x < 0.5:
                tags.append("U_cbits_omitted")
            elif x < 0.75:
                ent["cbits"] = 0
                tags.append("cbits0")
            else:
                ent["cbits"] = 32
        else:
            if x < 0.8:
                ent["cbits"] = rng.choice([16, 32, 64])
            elif x < 0.9:
                ent["cbits"] = 0
                tags.append("cbits0")
        x = rng.random()
        if x < (0.9 if leaf else 0.6):
            ent["pbits"] = rng.choice([32, 64])
        elif x < 0.8:
            ent["pbits"] = 0
            tags.append("pbits0")
        else:
            tags.append("pbits_omitted")
        if ent.get("cbits") and ent.get("pbits") and rng.random() < 0.15:
            ent["layout"] = "interleaved"
            tags.append("interleaved")
        spec[r] = ent
    return spec


# ------------------------------------------------------------------------------------------ bindings

def participants(e, mi, lrank, decl):
    """input tensors that are co-iterated (intersected) at loop rank lrank, in term order"""
    out = []
    if mi.final_override is not None:
        return [n for n, rs in e.factors if lrank in mi.final(rs) and lrank in mi.loop and lrank not in mi.pos_override]
    for n, rs in e.factors:
        rs2 = decl[n] if e.conv else rs
        if lrank in mi.final(rs2) and (not mi.flat or lrank != mi.flat_name() or all(x in rs2 for x in mi.flat)):
            out.append(n)
    return out


def gen_bindings(rng, case_name, eins, decl, storage, infos, configs, fmt, loopfmt, tags):
    bindings = {}
    cfg_names = list(configs)
    prev_cfg = None
    used_fus = {}
    mem_used = {}
    for ei, e in enumerate(eins):
        mi = infos[e.out]
        if prev_cfg is not None and rng.random() < 0.5:
            cfg = prev_cfg
        else:
            cfg = rng.choice(cfg_names)
        if prev_cfg is not None:
            tags.append("cascade_same_config" if cfg == prev_cfg else "cascade_diff_config")
        prev_cfg = cfg
        comps = configs[cfg]
        ent = [{"config": cfg, "prefix": "tmp/%s_%s" % (case_name, e.out)}]
        per_comp = {}        # component name -> list of binding dicts
        order = []

        def add(comp, b=None):
            if comp not in per_comp:
                per_comp[comp] = []
                order.append(comp)
            if b is not None:
                per_comp[comp].append(b)

        mems = [c for c in comps if c.is_mem()]
        # ---- memory traffic
        eager_done = set()
        eager_list = []
        for t in e.tensors():
            f = loopfmt.get((e.out, t))
            if f is None or rng.random() < 0.2:
                continue
            spec = fmt[t][f]
            final = spec["rank-order"]
            if not final:
                continue
            # the chain of memories of this tensor: at most one per depth
            bydepth = {}
            for c in mems:
                bydepth.setdefault(c.depth, []).append(c)
            chain = []
            for d in sorted(bydepth):
                if rng.random() < 0.75:
                    chain.append(rng.choice(bydepth[d]))
            if not chain:
                continue
            if len(set(c.name for c in chain)) != len(chain):
                continue
            # a memory that feeds a deeper one needs a bandwidth
            for ci, c in enumerate(chain[:-1]):
                if "bandwidth" not in c.attrs:
                    if rng.random() < 0.1:
                        tags.append("buffer_source_no_bandwidth")
                    else:
                        chain = chain[:ci + 1]
                    break
            is_out = t == e.out
            eager_at = {}      # buffet name -> index of the eager root rank
            for c in chain:
                if c.cls == "Buffet" and rng.random() < (0.08 if is_out else 0.22):
                    ri = rng.randrange(len(final))
                    if mi.pos(final[ri]) == 0 and rng.random() < 0.97:
                        continue        # only `root` could be the evict-on rank: crashes the compiler (see below)
                    if final[ri] not in mi.loop and not (mi.flat and final[ri] in mi.flat):
                        # a rank that is iterated through a projection (convolution): `assert loaded` fails
                        if rng.random() < 0.9:
                            continue
                        tags.append("eager_on_projected_rank")
                    eager_at[c.name] = ri
            for ri, r in enumerate(final):
                rs = spec[r]
                types = []
                if rs.get("layout") == "interleaved":
                    types = ["elem"]
                else:
                    if rs.get("cbits"):
                        types.append("coord")
                    if rs.get("pbits"):
                        types.append("payload")
                    if not types and rng.random() < 0.3:
                        types = [rng.choice(["coord", "payload"])]
                        tags.append("zero_bits_binding")
                    if rs.get("cbits") and rs.get("pbits") and rng.random() < 0.1:
                        types = ["elem"]
                        tags.append("elem_without_interleaved")
                if rng.random() < 0.15:
                    continue
                p = mi.pos(r)
                above = ["root"] + mi.loop[:p]
                for ty in types:
                    if rng.random() < 0.1:
                        continue
                    for c in chain:
                        b = {"tensor": t, "rank": r, "type": ty, "format": f}
                        if c.cls == "Buffet":
                            ea = eager_at.get(c.name)
                            if ea is not None:
                                if ri > ea:
                                    continue            # covered by the eager binding above
                                if ri == ea:
                                    if (c.name, t) in eager_done:
                                        continue
                                    eager_done.add((c.name, t))
                                    b["style"] = "eager"
                                    b["evict-on"] = rng.choice(above[1:]) if len(above) > 1 and rng.random() < 0.98 else "root"
                                    eager_list.append((t, r, b["evict-on"]))
                                    tags.append("eager")
                                    if ri > 0 and mi.flat and final[ri - 1] in mi.flat and final[ri - 1] not in mi.loop:
                                        # the fiber is produced by a getPayload() in the loop body, but the eager
                                        # trace is emitted above it: NameError at run time
                                        tags.append("eager_root_after_lookup_rank")
                                    if is_out:
                                        tags.append("eager_output")
                            if "evict-on" not in b:
                                b["evict-on"] = rng.choice(above)
                            if "style" not in b and rng.random() < 0.4:
                                b["style"] = "lazy"
                        elif c.cls == "Cache" and rng.random() < 0.1:
                            b["evict-on"] = rng.choice(above)
                        if c.cls != "DRAM" and mi.flat and (r in mi.flat or b.get("evict-on") in mi.flat):
                            tags.append("traffic_rank_map")
                        add(c.name, dict(_shuffled(rng, list(b.items()))))
            tags.append("chain%d" % len(chain))
            if len(chain) >= 2 and chain[0].cls != "DRAM":
                tags.append("buffer_fills_from_buffer")
            # a binding that names the tensor's other format (not the one concordant with this loop order)
            others = [g for g in fmt[t] if g != f and sorted(fmt[t][g]["rank-order"]) == sorted(final)]
            if others and rng.random() < 0.12:
                g = rng.choice(others)
                c = rng.choice(chain)
                r = rng.choice(final)
                b = {"tensor": t, "rank": r, "type": rng.choice(["coord", "payload"]), "format": g}
                if c.cls == "Buffet":
                    b["evict-on"] = rng.choice(["root"] + mi.loop[:mi.pos(r)])
                add(c.name, b)
                tags.append("binding_to_nonloop_format")
        # an eager binding whose innermost evict-on rank is `root` crashes trace_tree (NetworkXError)
        innermost = {}
        for t, r, ev in eager_list:
            k = (t, r)
            pos = -1 if ev == "root" else mi.loop.index(ev)
            innermost[k] = max(innermost.get(k, -1), pos)
        if any(v < 0 for v in innermost.values()):
            tags.append("eager_evict_root_only")
        if eager_list and (e.out, e.out) in loopfmt:
            # the compiler then treats the Einsum as eagerly *writing* (whatever tensor the eager binding is for)
            tags.append("eager_rank0_output" if not e.oranks else "eager_write_flag")
        # ---- memories bound with an empty list
        for c in mems:
            if c.name not in per_comp and rng.random() < 0.15:
                add(c.name)
                tags.append("empty_memory_binding")
        # ---- compute
        computes = [c for c in comps if c.cls == "Compute"]
        nmul = len(e.factors) - 1 if e.kind == "times" else 0
        reduces = any(r not in e.oranks for r in e.ranks())
        want = []
        if nmul > 0:
            want.append("mul")
        if reduces:
            want.append("add")
        rng.shuffle(computes)
        for op in want:
            if rng.random() < 0.15:
                continue
            cands = [c for c in computes if c.name not in per_comp]
            pref = [c for c in cands if c.attrs.get("type") == op]
            if pref and rng.random() < 0.85:
                c = rng.choice(pref)
            elif cands:
                c = rng.choice(cands)
                tags.append("op_on_other_unit_type")
            else:
                continue
            add(c.name, {"op": op})
            used_fus.setdefault(c.name, []).append(e.out)
        for c in computes:
            if c.name not in per_comp and rng.random() < 0.008:
                add(c.name)
                tags.append("empty_compute_binding")
        # ---- intersectors
        isects = [c for c in comps if c.cls == "Intersector"]
        cands = []
        for lr in mi.loop:
            ps = participants(e, mi, lr, decl)
            if len(ps) >= 2:
                cands.append((lr, ps))
        conv_direct = {}
        if e.conv:
            cands = []
            for lr, ps, direct in conv_isect_cands(e, mi):
                cands.append((lr, ps))
                conv_direct[lr] = direct
        rng.shuffle(cands)
        taken = set()
        for c in isects:
            if rng.random() < 0.25:
                if rng.random() < 0.3:
                    add(c.name)
                    tags.append("empty_intersector_binding")
                continue
            ty = c.attrs["type"]
            nb = rng.choice([1, 1, 2])
            for lr, ps in cands:
                if nb == 0:
                    break
                if lr in taken:
                    continue
                if ty != "leader-follower" and len(ps) != 2:
                    if rng.random() < 0.02:
                        add(c.name, {"rank": lr})
                        tags.append("two_finger_three_way")
                        taken.add(lr)
                    continue
                b = {"rank": lr}
                if e.conv:
                    # the traces of a projected fiber are filed under the tensor's own rank: only a leader-follower
                    # intersector led by the tensor that is iterated directly can be built
                    lead = conv_direct[lr] if rng.random() < 0.9 else [x for x in ps if x != conv_direct[lr]][0]
                    if ty != "leader-follower" or lead != conv_direct[lr]:
                        if rng.random() < 0.85:
                            continue
                        tags.append("intersector_on_projected_rank")
                    if ty == "leader-follower":
                        b["leader"] = lead
                        tags.append("leader_first" if lead == ps[0] else "leader_not_first_factor")
                elif ty == "leader-follower":
                    if rng.random() < 0.85:
                        b["leader"] = ps[0]
                        tags.append("leader_first")
                    else:
                        b["leader"] = rng.choice(ps[1:])
                        tags.append("leader_not_first_factor")
                taken.add(lr)
                add(c.name, b)
                tags.append("isect:" + ty)
                if len(ps) > 2:
                    tags.append("isect_3way")
                used_fus.setdefault(c.name, []).append(e.out)
                nb -= 1
            if c.name not in per_comp and rng.random() < 0.02 and mi.loop:
                free = [lr for lr in mi.loop if lr not in taken and lr not in [x for x, _ in cands]]
                if free:
                    lr = rng.choice(free)
                    b = {"rank": lr}
                    if ty == "leader-follower":
                        b["leader"] = e.factors[0][0]
                    add(c.name, b)
                    taken.add(lr)
                    tags.append("intersector_no_coiteration")
        # ---- mergers
        mergers = [c for c in comps if c.cls == "Merger"]
        if mergers and not mi.flat and not e.conv and mi.final_override is None:
            swz = []
            for t in e.tensors():
                if t == e.out:
                    continue
                st = mi.storage_expanded(storage[t])
                fo = mi.final(e.tensor_ranks(t))
                if st != fo:
                    swz.append((t, st, fo))
            rng.shuffle(swz)
            for c in mergers:
                if not swz or rng.random() < 0.3:
                    if rng.random() < 0.02:
                        add(c.name)
                        tags.append("empty_merger_binding")
                    continue
                t, st, fo = swz.pop()
                init = st
                if len(st) >= 3 and rng.random() < 0.2:
                    init = _shuffled(rng, st)
                    if init == fo:
                        init = st
                    elif init != st:
                        tags.append("merger_init_not_storage")
                add(c.name, {"tensor": t, "init-ranks": list(init), "final-ranks": list(fo)})
                tags.append("merger")
                used_fus.setdefault(c.name, []).append(e.out)
        # ---- sequencers
        seqs = [c for c in comps if c.cls == "Sequencer"]
        nseq = 0
        for c in seqs:
            if rng.random() < 0.25 or not mi.loop:
                if rng.random() < 0.015:
                    add(c.name)
                    tags.append("empty_seq_binding")
                continue
            n = rng.randint(1, min(c.attrs["num_ranks"], len(mi.loop)))
            rs = rng.sample(mi.loop, n)
            if rng.random() < 0.7:
                rs.sort(key=mi.loop.index)
            for r in rs:
                add(c.name, {"rank": r})
            nseq += 1
            tags.append("seq_multi_rank" if n > 1 else "seq_one_rank")
            used_fus.setdefault(c.name, []).append(e.out)
        if nseq:
            tags.append("sequencers%d" % nseq)
        # which memories act as sources (feed a deeper memory holding the same data) in this Einsum
        memcomp = {c.name: c for c in mems}
        paths = {}
        for cn, bl in per_comp.items():
            if cn in memcomp:
                for b in bl:
                    paths.setdefault((b["tensor"], b["rank"], b["type"], b["format"]), []).append(memcomp[cn])
                if bl:
                    mem_used.setdefault(cn, set()).add(e.out)
        srcs = {}
        for k, cs in paths.items():
            if loopfmt.get((e.out, k[0])) != k[3]:
                continue
            cs = sorted(cs, key=lambda c: c.depth)
            for i in range(1, len(cs)):
                srcs[cs[i - 1].name] = cs[i - 1].num
        if len(srcs) >= 2:
            tags.append("two_source_memories")
            if len(set(srcs.values())) >= 2:
                tags.append("sources_with_different_instance_counts")
            if any(memcomp[n].cls != "DRAM" for n in srcs) and any(memcomp[n].cls == "DRAM" for n in srcs):
                tags.append("fills_from_dram_and_from_buffer")
        if rng.random() < 0.3:
            rng.shuffle(order)
        for comp in order:
            ent.append({"component": comp, "bindings": per_comp[comp]})
        if rng.random() < 0.3 and len(ent) > 1:
            # the order of the entries of a binding list carries no meaning
            ent.insert(rng.randint(1, len(ent) - 1), ent.pop(0))
            tags.append("config_entry_not_first")
        bindings[e.out] = ent
    if len(eins) > 1:
        if any(len(v) > 1 for v in mem_used.values()):
            tags.append("memory_bound_in_several_einsums")
        if any(len(set(v)) > 1 for v in used_fus.values()):
            tags.append("shared_functional_unit")
        elif used_fus:
            tags.append("no_shared_functional_unit")
    return bindings


def conv_isect_cands(e, mi):
    """(loop rank, participants in term order, tensor whose own rank is the loop rank)"""
    Q, S, W = e.conv
    names = [n for n, _ in e.factors]
    direct = {S: [n for n, r in e.factors if r == [S]][0], W: [n for n, r in e.factors if r == [W]][0]}
    if mi.loop in ([Q, S], [Q, W]):
        return [(mi.loop[1], names, direct[mi.loop[1]])]
    return []


# ------------------------------------------------------------------------------------------ g7

def g7(rng, **opts):
    """opts:  avoid=<iterable of tags or of the group names "known-bad" / "expect-reject" / "minifiber-gap">:
    re-draw (from the same rng) until the case carries none of them;  clean=True is avoid=all three groups."""
    avoid = set(opts.get("avoid") or ())
    if opts.get("clean"):
        avoid |= {"known-bad", "expect-reject", "minifiber-gap"}
    for grp, ts in (("known-bad", KNOWN_BAD_TAGS), ("expect-reject", EXPECT_REJECT_TAGS), ("minifiber-gap", MINIFIBER_GAP_TAGS)):
        if grp in avoid:
            avoid |= set(ts)
    while True:
        case = _g7(rng)
        if not avoid.intersection(case["tags"]):
            return case


def _g7(rng):
    tags = ["g7"]
    env = {}
    eins, decl, ext = gen_einsums(rng, tags)
    mapping, infos = gen_mapping(rng, eins, decl, ext, env, tags)
    storage = {t: list(mapping["rank-order"].get(t) or decl[t]) for t in decl}
    # architecture
    ncfg = 1 if rng.random() < 0.7 else 2
    arch, configs = {}, {}
    cfg_names = rng.choice([["Accelerator", "MergePhase"], ["accel", "accel2"], ["Config0", "Config1"]])
    for i in range(ncfg):
        y, comps = gen_config(rng, i, tags)
        arch[cfg_names[i]] = y
        configs[cfg_names[i]] = comps
    tags.append("configs%d" % ncfg)
    fmt, loopfmt = gen_formats(rng, eins, decl, storage, infos, tags)
    name = "g7_%d" % rng.randrange(10 ** 6)
    bindings = gen_bindings(rng, name, eins, decl, storage, infos, configs, fmt, loopfmt, tags)
    case = dict(decl=decl, eins=[e.to_case_ein() for e in eins], mapping={k: v for k, v in mapping.items() if v},
                ext=ext, env=env, tags=sorted(set(tags)))
    case["architecture"] = arch
    case["bindings"] = bindings
    case["format"] = fmt
    return case


# ------------------------------------------------------------------------------------------ self-test

def _run_patched(text, case, inputs):
    """gens.run_text with the stand-ins that minifiber lacks patched in for the duration of the call:
    Metrics.getIter() must return something with .copy(); Traffic.buffetTraffic / cacheTraffic take an optional
    seventh argument (the rank map)."""
    import gens, minifiber
    saved = (minifiber._Metrics.getIter, minifiber._Traffic.buffetTraffic, minifiber._Traffic.cacheTraffic)
    minifiber._Metrics.getIter = lambda self: []
    minifiber._Traffic.buffetTraffic = lambda self, *a: minifiber._TrafficResult()
    minifiber._Traffic.cacheTraffic = lambda self, *a: minifiber._TrafficResult()
    try:
        return gens.run_text(text, case, inputs)
    finally:
        minifiber._Metrics.getIter, minifiber._Traffic.buffetTraffic, minifiber._Traffic.cacheTraffic = saved


def _selftest(seed, n, verbose=False):
    import random, collections, traceback
    import gens, specs
    rng = random.Random(seed)
    hist = collections.Counter()
    rej = collections.Counter()
    crash = collections.Counter()
    tagfreq = collections.Counter()
    flagged = collections.Counter()
    runerr = collections.Counter()
    examples = {}
    plain_hist = collections.Counter()
    for i in range(n):
        case = g7(rng)
        tagfreq.update(case["tags"])
        d = gens.to_yaml_dict(case)
        special = [t for t in case["tags"] if t in KNOWN_BAD_TAGS + EXPECT_REJECT_TAGS + MINIFIBER_GAP_TAGS]
        groups = [g for g, ts in (("known-bad", KNOWN_BAD_TAGS), ("expect-reject", EXPECT_REJECT_TAGS),
                                  ("minifiber-gap", MINIFIBER_GAP_TAGS)) if any(t in ts for t in special)]
        cls = "+".join(groups) if groups else "clean"
        c = specs.compile_spec(d, "metrics")
        dp = {k: v for k, v in d.items() if k not in ("architecture", "bindings", "format")}
        cp = specs.compile_spec(dp, "plain")
        plain_hist["plain compiled" if cp.ok else "plain %s: %s" % (cp.err_kind, (cp.err_msg or "")[:50])] += 1
        if not c.ok:
            if c.err_kind == "ValueError":
                key = "rejected ValueError"
                rej[(cls, (c.err_msg or "")[:45])] += 1
                examples.setdefault(("rej", (c.err_msg or "")[:45]), d)
            else:
                key = "compile crash"
                crash[(cls, c.err_kind, (c.err_msg or "")[:40])] += 1
                examples.setdefault(("crash", c.err_kind, (c.err_msg or "")[:40]), d)
            hist[key] += 1
            hist[key + " (%s)" % cls] += 1
            for t in special:
                flagged[(t, key)] += 1
            continue
        hist["compiled ok"] += 1
        inputs = gens.rand_inputs(rng, case)
        try:
            r = gens.run_text(c.text, case, inputs)
        except Exception as ex:
            hist["harness error"] += 1
            traceback.print_exc()
            continue
        if not r.ok and any(t in MINIFIBER_GAP_TAGS for t in special):
            # the program needs a stand-in minifiber does not have: run again with the stand-ins patched in memory
            # (this process only) to see whether anything else is wrong with it
            r2 = _run_patched(c.text, case, inputs)
            if r2.ok and not (gens.compare(case, r2, inputs) + list(r2.problems)):
                hist["  of the runtime errors: executed ok once the missing stand-ins are patched in"] += 1
            else:
                hist["  of the runtime errors: still failing with the stand-ins patched in"] += 1
                runerr[(cls, "PATCHED: " + (r2.err or "wrong result")[:50])] += 1
        if not r.ok:
            key = "runtime error"
            runerr[(cls, r.err[:60])] += 1
            examples.setdefault(("run", cls, r.err[:40]), d)
        else:
            probs = gens.compare(case, r, inputs) + list(r.problems)
            if probs:
                key = "wrong result"
                examples.setdefault(("wrong", cls, tuple(special)), d)
                if verbose and cls == "clean":
                    print("WRONG", probs[:2])
            else:
                key = "executed ok"
        hist[key] += 1
        hist[key + " (%s)" % cls] += 1
        for t in special:
            flagged[(t, key)] += 1
    print("=== g7 self-test: seed %d, %d cases" % (seed, n))
    for k in sorted(hist):
        print("  %-62s %5d  (%.1f%%)" % (k, hist[k], 100.0 * hist[k] / n))
    print("--- rejected with ValueError (class, message prefix)")
    for k, v in rej.most_common():
        print("  %5d  %s" % (v, k))
    print("--- compile crashes (class, type, message prefix)")
    for k, v in crash.most_common():
        print("  %5d  %s" % (v, k))
    print("--- runtime errors (class, message)")
    for k, v in runerr.most_common():
        print("  %5d  %s" % (v, k))
    print("--- flagged classes (tag, outcome)")
    for k, v in sorted(flagged.items()):
        print("  %5d  %s" % (v, k))
    print("--- plain mode (architecture/bindings/format removed)")
    for k, v in plain_hist.most_common():
        print("  %5d  %s" % (v, k))
    print("--- tag frequencies")
    for k, v in sorted(tagfreq.items()):
        print("  %5d  %s" % (v, k))
    return hist, examples


if __name__ == "__main__":
    seed = int(sys.argv[1]) if len(sys.argv) > 1 else 0
    n = int(sys.argv[2]) if len(sys.argv) > 2 else 300
    hist, examples = _selftest(seed, n, verbose="-v" in sys.argv)
    if "-x" in sys.argv:
        import specs
        for k, d in examples.items():
            print("=" * 100)
            print(k)
            print(specs.dump_yaml(d))
