"""C14 — execution time is the bottleneck-per-block roll-up of component times.
Theorems: Props/C14 (rollup, rollup_registered, build_some).  Tie: from real metrics compilations Lean gets
the fusion blocks, the registered components and the right-hand side of metrics["time"] = ...: the model
expression must be that expression (model = implementation), and its leaves must be the registered
(einsum, component) pairs, each once.  Harness side: every registered pair has exactly one time assignment
in the dump, and its denominator is (clock frequency | bandwidth) x instance count, the latter computed from
the raw architecture YAML independently of the compiler; executed dumps are rolled up independently."""
import ast, json
import common, pool, specs, metricsinfo, c06


def den_value(expr_text):
    """value of the divisor of `num / den` (top-level division of the printed expression)"""
    node = ast.parse(expr_text, mode="eval").body
    if not (isinstance(node, ast.BinOp) and isinstance(node.op, ast.Div)):
        return None
    try:
        return eval(compile(ast.Expression(node.right), "<den>", "eval"), {"__builtins__": {}}, {})
    except Exception:
        return None


def expected_den(d, einsum, comp):
    cfg = metricsinfo.config_of(d, einsum)
    allc = metricsinfo.arch_components(d)
    info = allc.get(cfg, {}).get(comp)
    if info is None:
        return None, "component %s is not in the architecture of config %s" % (comp, cfg)
    if info["cls"] in ("dram", "buffet", "cache"):
        bw = info["attrs"].get("bandwidth")
        if bw is None:
            return None, "memory component without bandwidth"
        return bw * info["instances"], "bandwidth %s x %d instances" % (bw, info["instances"])
    if info["freq"] is None:
        return None, "no clock frequency"
    return info["freq"] * info["instances"], "clock %s x %d instances" % (info["freq"], info["instances"])


def check_records(ctx, recs):
    reqs, metas, breqs, bmetas = [], [], [], []
    for r in recs:
        if not r["ok"]:
            ctx.stat(("rejected_" if r["err_kind"] == "ValueError" else "compile_crash_") + str(r["err_kind"])); continue
        if "time" not in r:
            ctx.stat("no_time_info"); ctx.notes.append(r.get("time_error", "")); continue
        t = r["time"]
        npairs = sum(len(v) for v in t["comps"].values())
        ctx.case([t["blocks"], t["comps"], r["yaml"].get("architecture")], nontrivial=npairs >= 2)
        ctx.stat("blocks_%d" % len(t["blocks"])); ctx.stat("pairs", npairs)
        if len(t["totals"]) != 1:
            ctx.ob(False)
            ctx.violation(dict(kind="time-total-count", yaml=r["yaml"], text=r["text"], reason="metrics[\"time\"] is assigned %d times" % len(t["totals"])), True)
            continue
        reqs.append({"op": "time_expr", "blocks": t["blocks"], "comps": t["comps"], "actual": t["totals"][0]})
        metas.append(r)
        if t.get("obs") and all(o["config"] is not None for o in t["obs"]):
            breqs.append({"op": "fusion", "obs": t["obs"], "impl_steps": [t["blocks"]]})
            bmetas.append(r)
        else:
            ctx.stat("no_fusion_obs")
        # (b) every registered pair has exactly one time assignment, and nothing else has one
        registered = sorted((e, c) for e, cs in t["comps"].items() for c in cs)
        assigned = sorted((x["einsum"], x["comp"]) for x in t["comp_times"])
        ok = registered == assigned
        ctx.ob(ok)
        if not ok:
            ctx.violation(dict(kind="time-registration", yaml=r["yaml"], text=r["text"], registered=registered, assigned=assigned,
                               reason="component times computed by the dump %r differ from the pairs entering the roll-up %r" % (assigned, registered)), True)
        # (c) denominators
        for x in t["comp_times"]:
            den = den_value(x["text"])
            exp, why = expected_den(r["yaml"], x["einsum"], x["comp"])
            if exp == "ambiguous":
                ctx.stat("ambiguous_component_name_skipped"); continue
            ok = den is not None and exp is not None and abs(den - exp) <= 1e-9 * abs(exp)
            ctx.ob(ok)
            ctx.stat("denominators")
            if not ok and den is not None:
                # known finding: one registry of components by name across configurations, the last configuration wins
                cfgs = [c for c, comps in metricsinfo.arch_components(r["yaml"]).items() if x["comp"] in comps]
                if len(cfgs) > 1 and cfgs[-1] != metricsinfo.config_of(r["yaml"], x["einsum"]):
                    d2 = json.loads(json.dumps(r["yaml"]))
                    for b in d2["bindings"][x["einsum"]]:
                        if "config" in b:
                            b["config"] = cfgs[-1]
                    exp_last, _ = expected_den(d2, x["einsum"], x["comp"])
                    if exp_last is not None and abs(den - exp_last) <= 1e-9 * abs(exp_last):
                        f = ctx.match_finding({"predicates": {"component_name_in_several_configurations"}, "signature": "divisor-of-the-last-configuration-with-that-name"})
                        if f:
                            ctx.known(f, f["what"], failed_obligations=1); continue
            if not ok:
                ctx.violation(dict(kind="time-denominator", yaml=r["yaml"], einsum=x["einsum"], component=x["comp"], emitted=x["text"], expected_divisor=exp, expected_why=why,
                                   reason="metrics[%r][%r][\"time\"] divides by %r, expected %r (%s)" % (x["einsum"], x["comp"], den, exp, why)), True)
        # (d) executed dumps
        for ex in r.get("execs", []):
            ru = ex.get("rollup")
            if ru is None:
                continue
            ctx.ob(ru["ok"]); ctx.stat("executed_rollups")
            if not ru["ok"]:
                ctx.violation(dict(kind="time-rollup-executed", yaml=r["yaml"], text=r["text"], rollup=ru, inputs=ex["inputs"],
                                   reason="executing the dump gives metrics[\"time\"] = %r, the independent roll-up is %r" % (ru.get("program"), ru.get("independent"))), True)
    # (f) the instance count the real Hardware holds for every bound component = Arch.instances of the model on the tree as written
    #     (C14.instances_of_local: with distinct names that is the count of the level the component is written under)
    areqs, ametas = [], []
    for r in recs:
        t = r.get("time") if r.get("ok") else None
        if not t or not t.get("inst") or not t.get("arch"):
            continue
        for cfg, tree in sorted(t["arch"].items()):
            areqs.append({"op": "arch_instances", "tree": tree}); ametas.append((r, cfg))
    for (r, cfg), a in zip(ametas, common.lean_batch(areqs)):
        if "error" in a:
            raise common.InternalError("lean: " + a["error"])
        model = {c: n for c, n in a["instances"]}
        ctx.stat("arch_trees"); ctx.stat("arch_names_distinct" if a["distinct"] else "arch_names_repeated")
        for e, cs in sorted(r["time"]["inst"].items()):
            if metricsinfo.config_of(r["yaml"], e) != cfg:
                continue
            for c, n in sorted(cs.items()):
                if c not in model:
                    continue
                ok = model[c] == n
                ctx.ob(ok); ctx.stat("instance_counts")
                if not ok:
                    ctx.violation(dict(kind="arch-instances", yaml=r["yaml"], text=r.get("text"), einsum=e, config=cfg, component=c, real=n, model=model[c],
                                       names_distinct=a["distinct"],
                                       reason="Hardware holds %d instances for component %s of Einsum %s (configuration %s); the level it is written under gives %d" % (n, c, e, cfg, model[c]),
                                       obligation="Arch.instances (C14.instances_of_local) = Hardware.get_component(name, einsum).get_num_instances()"), a["distinct"])
    # (e) the blocks the roll-up sums over are the blocks the fusion model (Props/C13) forms for this cascade
    for r, a in zip(bmetas, common.lean_batch(breqs)):
        if "error" in a:
            raise common.InternalError("lean: " + a["error"])
        ok = a["model_steps"][-1] == r["time"]["blocks"]
        ctx.ob(ok); ctx.stat("blocks_vs_fusion_model")
        if not ok:
            ctx.violation(dict(kind="time-blocks", yaml=r["yaml"], text=r.get("text"), blocks=r["time"]["blocks"], model_blocks=a["model_steps"][-1], obs=r["time"]["obs"],
                               reason="metrics[\"time\"] sums over blocks %r; the fusion conditions give %r" % (r["time"]["blocks"], a["model_steps"][-1]),
                               obligation="Fusion.run (C13) = blocks summed by Collector.__build_time"), True)
    for r, a in zip(metas, common.lean_batch(reqs)):
        if "error" in a:
            raise common.InternalError("lean: " + a["error"])
        ctx.ob(a["agree"]); ctx.ob(a["once"])
        if len(ctx.samples) < 3:
            ctx.sample({"blocks": r["time"]["blocks"], "components": r["time"]["comps"], "time": a["model"]})
        if not (a["agree"] and a["once"]):
            ctx.violation(dict(kind="time-expression", yaml=r["yaml"], blocks=r["time"]["blocks"], comps=r["time"]["comps"], model=a["model"],
                               actual=r["time"]["totals"][0], once=a["once"],
                               reason=("the roll-up expression does not contain every registered component time exactly once" if not a["once"]
                                       else "the emitted metrics[\"time\"] expression differs from the model of __build_time: model %s" % a["model"]),
                               obligation="Time.build (C14.rollup) = Collector.__build_time"), not a["once"])


def gen_anchor(rng):
    """two or three configurations whose PE levels have different widths and whose component descriptions are ONE object (a YAML
    anchor on the `local` list, on single entries, or on the whole level - the last keeps the width); every Einsum picks a configuration"""
    import copy
    ne = rng.choice([2, 3, 3])
    cfgs = ["Small", "Big", "Huge"][:rng.choice([2, 2, 3])]
    widths = rng.sample([1, 2, 4, 8, 12, 16, 32], len(cfgs))
    local = [{"name": "Multiplier", "class": "Compute", "attributes": {"type": "mul"}}]
    if rng.random() < 0.5:
        local.append({"name": "Mem", "class": "DRAM", "attributes": {"bandwidth": rng.choice([64, 128])}})
    if rng.random() < 0.4:
        local.insert(0, {"name": "Adder", "class": "Compute", "attributes": {"type": "add"}})
    how = rng.choice(["list", "list", "entry", "level", "none"])
    arch, alias = {}, []
    for ci, (cfg, w) in enumerate(zip(cfgs, widths)):
        lvl = {"name": "PE[0..%d]" % (w - 1) if w > 1 or rng.random() < 0.5 else "PE", "local": copy.deepcopy(local)}
        if how == "level" and ci > 0:
            lvl = copy.deepcopy(arch[cfgs[0]][0]["subtree"][0])
            alias.append([["architecture", cfgs[0], 0, "subtree", 0], ["architecture", cfg, 0, "subtree", 0]])
        elif how == "list" and ci > 0:
            alias.append([["architecture", cfgs[0], 0, "subtree", 0, "local"], ["architecture", cfg, 0, "subtree", 0, "local"]])
        elif how == "entry" and ci > 0:
            j = rng.randrange(len(local))
            alias.append([["architecture", cfgs[0], 0, "subtree", 0, "local", j], ["architecture", cfg, 0, "subtree", 0, "local", j]])
        arch[cfg] = [{"name": "System", "attributes": {"clock_frequency": rng.choice([1000, 10 ** 9])}, "subtree": [lvl]}]
    names = ["T", "U", "Z"][:ne - 1] + ["Y"]
    decl = {"A": ["M"], "B": ["M"]}
    exprs, loop, st, bind = [], {}, {}, {}
    prev = "A"
    for i, n in enumerate(names):
        decl[n] = ["M"]
        exprs.append("%s[m] = %s[m] * B[m]" % (n, prev))
        loop[n] = ["M"]
        st[n] = {"space": [], "time": ["M"]}
        cfg = cfgs[i % len(cfgs)] if rng.random() < 0.7 else rng.choice(cfgs)
        b = [{"config": cfg, "prefix": "tmp/" + n}, {"component": "Multiplier", "bindings": [{"op": "mul"}]}]
        if any(l["name"] == "Mem" for l in local) and rng.random() < 0.7:
            b.append({"component": "Mem", "bindings": [{"tensor": "B", "rank": "M", "type": "payload", "format": "default"}]})
        bind[n] = b
        prev = n
    d = {"einsum": {"declaration": decl, "expressions": exprs}, "mapping": {"loop-order": loop, "spacetime": st},
         "architecture": arch, "bindings": bind,
         "format": {t: {"default": {"rank-order": ["M"], "M": {"format": "C", "cbits": 32, "pbits": 32}}} for t in decl}}
    if alias:
        d["_alias"] = alias
    return d, how


def run_anchor(ctx, n):
    """in-process (the sharing of objects is the point; `_alias` paths keep it through records and replays)"""
    import random
    rng = random.Random(ctx.seed * 7919 + 14)
    recs = []
    for i in range(n):
        d, how = gen_anchor(rng)
        c = specs.compile_spec(d, "metrics")
        ctx.stat("g14a_" + how)
        if not c.ok:
            ctx.stat("g14a_compile_" + str(c.err_kind)); continue
        recs.append(dict(gen="g14a", idx=i, mode="metrics", hashseed="", yaml=d, ok=True, err_kind=None, err_msg=None, text=c.text,
                         time=metricsinfo.time_info(c.hf, d)))
    check_records(ctx, recs)


def run(ctx):
    ctx.rule = ("metrics-mode compilations of the accelerator specifications in the corpus, of generated architecture/binding/format specifications (G7) and of generated fusion histories (C13's generator: 2-5 Einsums, shared/distinct components, loop orders, configurations); "
                "non-trivial = at least two registered (einsum, component) pairs; distinct = distinct (blocks, registrations, architecture)")
    ctx.trusted = ["Lean kernel; Props/C14", "Time.build = Collector.__build_time is compared per compilation (sampled over specifications)",
                   "instance counts / frequencies / bandwidths are read from the raw YAML by the harness (metricsinfo.arch_components)",
                   "component-time numerators (operation / bit counts) are not modelled"]
    k = 1 if ctx.tier == "quick" else 6
    items = [dict(gen="corpus", count=0, modes=["metrics"], time=True, all_workers=True)]
    if c06.has_g7():
        items.append(dict(gen="g7", count=80 * k, modes=["metrics"], time=True, nexec=1))
    items.append(dict(gen="g13m", count=120 * k, modes=["metrics"], time=True))
    recs = pool.collect(ctx, items)
    check_records(ctx, recs)
    run_anchor(ctx, 40 * k)
    # the known findings' witnesses are replayed on every run
    for f in ctx.findings:
        w = f.get("witness")
        if not w:
            continue
        c = specs.compile_spec(w, "metrics")
        if not c.ok:
            ctx.notes.append("known finding %s: witness no longer compiles" % f["id"]); continue
        before = len(ctx.known_hits)
        check_records(ctx, [dict(gen="known:" + f["id"], idx=0, mode="metrics", hashseed="", yaml=w, ok=True, err_kind=None, err_msg=None, text=c.text,
                                 time=metricsinfo.time_info(c.hf, w))])
        if len(ctx.known_hits) == before:
            ctx.notes.append("known finding %s: witness no longer fails - the defect may have been repaired; entry must be revisited" % f["id"])


def replay(ctx, path):
    rep = json.load(open(path))
    c = specs.compile_spec(rep["yaml"], "metrics")
    rec = dict(gen="replay", idx=0, mode="metrics", hashseed="", yaml=rep["yaml"], ok=c.ok, err_kind=c.err_kind, err_msg=c.err_msg)
    if c.ok:
        rec.update(text=c.text, time=metricsinfo.time_info(c.hf, rep["yaml"]))
    check_records(ctx, [rec])
    return ctx.finish()
