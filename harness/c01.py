"""C01 — the generated loop nest computes the Einsum for every loop order and rank order.
Theorems: Props/C01 (run_eq_spec_times, run_eq_spec_single, compile_wf, model_times; counterexamples for the two
known findings).  Tie: the Lean model compiler builds the nest from the specification alone (loop order, rank
orders, extents); per sampled input the model nest's result (Nest.run) must equal what the REAL emitted program
computes on the minifiber stand-in, its loop skeleton must be the real program's, Nest.spec must equal the
harness's dense oracle, and the real result must equal both."""
import copy, json, random
import common, pool, specs, gens, c19


def lean_terms(case, ex):
    e = case["eins"][0]
    terms = []
    inputs = {k: {tuple(p): v for p, v in pts} for k, pts in ex["inputs"].items()}
    for t in e["terms"]:
        scal = 1
        tensors = []
        for f in t["factors"]:
            if f[0] == "s" and t["kind"] == "take":
                # a scalar operand of take(): a rank-0 operand that is always present
                tensors.append({"name": "scalar_" + f[1], "ranks": [], "pts": [[[], case["env"][f[1]]]]})
            elif f[0] == "s":
                scal *= case["env"][f[1]]
            else:
                ranks = [idx[0][1].upper() for idx in f[2]]
                tensors.append({"name": f[1], "ranks": ranks, "pts": [[list(p), v] for p, v in sorted(inputs[f[1]].items())]})
        terms.append({"kind": t["kind"], "sel": t["sel"] if t["sel"] is not None else 0, "scal": scal, "tensors": tensors})
    return terms


def lean_request(case, rec, ex):
    e = case["eins"][0]
    d = rec["yaml"]
    # the loop order is a parameter of the model compiler (the theorems hold for every loop order); when the mapping
    # omits it, the implementation's own choice is used (that this choice is the canonical default is C19's business)
    lo = ((d.get("mapping") or {}).get("loop-order") or {}).get(e["out"]) or (pool.loop_ranks(d) or {}).get(e["out"]) or c19.default_loop_order(case, e)
    terms = []
    inputs = {k: {tuple(p): v for p, v in pts} for k, pts in ex["inputs"].items()}
    for t in e["terms"]:
        scal = 1
        tensors = []
        for f in t["factors"]:
            if f[0] == "s" and t["kind"] == "take":
                # a scalar operand of take(): a rank-0 operand that is always present
                tensors.append({"name": "scalar_" + f[1], "ranks": [], "pts": [[[], case["env"][f[1]]]]})
            elif f[0] == "s":
                scal *= case["env"][f[1]]
            else:
                ranks = [idx[0][1].upper() for idx in f[2]]
                tensors.append({"name": f[1], "ranks": ranks, "pts": [[list(p), v] for p, v in sorted(inputs[f[1]].items())]})
        terms.append({"kind": t["kind"], "sel": t["sel"] if t["sel"] is not None else 0, "scal": scal, "tensors": tensors})
    return {"op": "nest", "loop": lo, "exts": [case["ext"][r] for r in lo], "out_name": e["out"], "out_ranks": list(case["decl"][e["out"]]),
            "terms": terms, "tree": rec["tree"]}


def pts_set(lst):
    return sorted((tuple(p), v) for p, v in lst)


def classify(case):
    preds = set()
    if "take_in_multi_term_sum" in case["tags"]:
        preds.add("take_in_multi_term_sum")
    if "take_rank0_operand" in case["tags"]:
        preds.add("take_with_rank0_operand")
    return preds


def extra_search(rec, case, n, seed):
    """failing-input search: more inputs (varied densities, empty tensors, single elements) on the real program"""
    rng = random.Random(seed)
    for i in range(n):
        inputs = gens.rand_inputs(rng, case, density=rng.choice([0.0, 0.15, 0.5, 0.9, 1.0]))
        r = gens.run_text(rec["text"], case, inputs)
        probs = ([r.err] if not r.ok else r.problems + gens.compare(case, r, inputs))
        if probs:
            return dict(inputs={k: [[list(p), v] for p, v in x.items()] for k, x in inputs.items()}, problems=probs)
    return None


def check_records(ctx, recs, search_seed=0):
    reqs, metas = [], []
    for r in recs:
        if not r["ok"]:
            ctx.stat(("rejected_" if r["err_kind"] == "ValueError" else "compile_crash_") + str(r["err_kind"]))
            # G1 is legal by construction (the unchanged compiler accepts all of it): a well-formed Einsum that yields no program
            ctx.ob(False)
            ctx.violation(dict(kind="legal-specification-rejected", yaml=r["yaml"], yaml_text=specs.dump_yaml(r["yaml"]), hashseed=r["hashseed"],
                               reason="a well-formed Einsum with a permutation as loop order yields no program (%s: %s)" % (r["err_kind"], str(r.get("err_msg"))[:200])), True)
            continue
        case = r["case"]
        ctx.case([r["text"]], nontrivial="for " in r["text"])
        for t in set(case["tags"]):
            ctx.stat("tag_" + t)
        for ex in r["execs"]:
            if "harness_error" in ex:
                raise common.InternalError(ex["harness_error"])
            reqs.append(lean_request(case, r, ex)); metas.append((r, case, ex))
    for (r, case, ex), a in zip(metas, common.lean_batch(reqs)):
        if "error" in a:
            raise common.InternalError("lean: " + a["error"])
        preds = classify(case)
        oracle = pts_set([[list(p), v] for p, v in gens.oracle_cascade(case, {k: {tuple(p): v for p, v in x} for k, x in ex["inputs"].items()})[case["eins"][0]["out"]].items()])
        real = pts_set(ex["outputs"].get(case["eins"][0]["out"], [])) if ex["ok"] else None
        run_, spec_ = pts_set(a["run"]), pts_set(a["spec"])
        skel_ok = [(v, sorted(fs)) for v, fs in a["expected_loops"]] == [(v, sorted(fs)) for v, fs in a.get("actual_loops", [])][:len(a["expected_loops"])]
        real_ok = ex["ok"] and not ex["problems"] and real == oracle
        # outside the proved class (take inside a sum / rank-0 take operand) the model nest is not claimed to be the emitted one
        model_ok = a["wf"] and skel_ok and (real == run_ or not a["in_proved_class"])
        spec_ok = spec_ == oracle
        thm_ok = (run_ == spec_) or not a["in_proved_class"]
        ctx.ob(real_ok); ctx.ob(model_ok); ctx.ob(spec_ok); ctx.ob(thm_ok)
        if a["in_proved_class"]:
            ctx.stat("in_proved_class")
        # sums of products: the decidable hypotheses of C01.resultAt_eq_meaning' hold for the sampled specification and input
        hyp_ok = a["hyps_ok"] or not a["plain"]
        ctx.ob(hyp_ok)
        if a["hyps_ok"]:
            ctx.stat("meaning_theorem_hypotheses_hold")
        if not hyp_ok:
            ctx.violation(dict(yaml=r["yaml"], inputs=ex["inputs"], kind="model-hypotheses", obligation="hypotheses of C01.resultAt_eq_meaning' decided on the sample",
                               reason="a generated sum-of-products sample lies outside the hypotheses of the theorem (generator or model compiler out of step)"), False)
            continue
        if len(ctx.samples) < 3 and "for " in r["text"] and len(case["eins"][0]["terms"]) > 1:
            ctx.sample({"einsum": r["yaml"]["einsum"]["expressions"], "mapping": r["yaml"].get("mapping"), "extents": case["ext"], "result_points": len(oracle)})
        if real_ok and model_ok and spec_ok and thm_ok:
            continue
        base = dict(yaml=r["yaml"], yaml_text=specs.dump_yaml(r["yaml"]), hashseed=r["hashseed"], text=r["text"], extents=case["ext"], env=case["env"], inputs=ex["inputs"],
                    real=real, oracle=oracle, model_run=run_, model_spec=spec_, exec_error=ex.get("err"), exec_problems=ex.get("problems"))
        if not real_ok:
            sig = "wrong-values"
            f = None
            # a known finding explains the failure only if the emitted program computes exactly what the Lean model of the emitted nest
            # computes (Nest.run: union co-iteration, the selected operand added unconditionally) - the deviation from the Einsum is then
            # the one the Lean counterexamples describe; any other deviation is a different defect
            # (required for single-term Einsums; in a sum the model nest keeps visiting the coordinates of a term whose
            # intersection is already empty, which adds nothing for products but differs from the emitted union for take)
            single = len(case["eins"][0]["terms"]) == 1
            if preds and not a["in_proved_class"] and ex["ok"] and not ex["problems"] and (not single or (real == run_ and a["wf"] and skel_ok)):
                for p in preds:
                    f = ctx.match_finding({"predicates": {p}, "signature": "emitted-nest-differs-from-einsum"})
                    if f:
                        break
            if f:
                ctx.known(f, f["what"], failed_obligations=1 + (0 if thm_ok else 1)); continue
            ctx.violation(dict(base, kind="wrong-result", reason=("the emitted program raises " + str(ex.get("err"))) if not ex["ok"] else
                               ("; ".join(ex["problems"]) if ex["problems"] else "the emitted program computes %r, the Einsum defines %r" % (real[:6], oracle[:6]))), True)
        elif not spec_ok or not thm_ok:
            ctx.violation(dict(base, kind="model-semantics", obligation="Nest.spec = dense oracle / Nest.run = Nest.spec inside the proved class (Props/C01)",
                               reason="the Lean reference semantics disagrees with the dense oracle"), False)
        else:
            found = extra_search(r, case, 30, search_seed)
            ctx.violation(dict(base, kind="model-correspondence", skeleton_expected=a["expected_loops"], skeleton_actual=a.get("actual_loops"), wf=a["wf"],
                               search=found, obligation="Nest model compiler (Props/C01.compile_wf, model_times) = real compiler: loop skeleton and result on sampled inputs",
                               reason="the emitted program no longer matches the model nest (%s)" % ("skeleton" if not skel_ok else "result" if real != run_ else "well-formedness")),
                          found is not None)


def witnesses(ctx):
    """the known findings' witnesses are replayed on every run"""
    for f in ctx.findings:
        w = f.get("witness_case")
        if not w:
            continue
        rec = pool.make_record("known:" + f["id"], 0, w, gens.to_yaml_dict(w), "plain", 0, random.Random(0), "")
        if not rec["ok"]:
            ctx.notes.append("known finding %s: witness no longer compiles" % f["id"]); continue
        inputs = {k: {tuple(p): v for p, v in x} for k, x in f["witness_inputs"].items()}
        r = gens.run_text(rec["text"], w, inputs)
        ex = dict(inputs={k: [[list(p), v] for p, v in x.items()] for k, x in inputs.items()}, ok=r.ok, err=r.err, problems=list(r.problems),
                  outputs={k: [[list(p), v] for p, v in x.items()] for k, x in r.outputs.items()})
        rec["execs"] = [ex]
        before = len(ctx.known_hits)
        check_records(ctx, [rec])
        if len(ctx.known_hits) == before:
            ctx.notes.append("known finding %s: witness no longer fails - entry must be revisited" % f["id"])


def run(ctx):
    ctx.rule = ("generated G1 Einsums (1-3 terms, products, take with selector, scalars incl. repeated ones, rank-0 tensors and outputs, reductions, output-only ranks; random rank orders; "
                "loop order = random permutation or omitted), each executed on 2-3 random sparse integer inputs under several hash seeds; non-trivial = program with a loop; distinct = distinct text")
    ctx.trusted = ["Lean kernel; Props/C01", "the reading of the fibertree API: Nest.run is what the emitted loop nest means (DESIGN 7.3); cross-checked against the minifiber stand-in on every sample",
                   "model compiler = real compiler is sampled (skeleton + results), not proved", "normal inputs (no stored zeros / empty sub-fibers)"]
    ctx.assumptions = ["TakeOK: take() with >= 2 operands only in single-term Einsums, no rank-0 operand of take (outside: known findings, counterexamples proved in Lean)"]
    k = 1 if ctx.tier == "quick" else 8
    recs = pool.collect(ctx, [dict(gen="g1", count=90 * k, modes=["plain"], nexec=2 if ctx.tier == "quick" else 3)])
    check_records(ctx, recs, ctx.seed)
    witnesses(ctx)


def replay(ctx, path):
    rep = json.load(open(path))
    print("replay: re-run `./check C01` - the replay file carries the specification, inputs and expected result"); return 2
