"""C06 — every emitted program is valid, closed Python.
Theorem: Props/C06.lean `DA_sound`/`closed` (for every execution path).  Tie: `DA (userNames spec) tree` is
evaluated in Lean on the tree the real compiler built (after `gen tree = text` has been confirmed), and
CPython's own parser must accept the text."""
import ast, json
import common, pool, specs


def plan(ctx):
    q = ctx.tier == "quick"
    k = 1 if q else 6
    return [dict(gen="corpus", count=0, modes=["plain", "spacetime", "metrics"]),
            dict(gen="g1", count=40 * k, modes=["plain", "spacetime"], nexec=0),
            dict(gen="g2", count=40 * k, modes=["plain", "spacetime"], nexec=0),
            dict(gen="g3", count=30 * k, modes=["plain", "spacetime"], nexec=0),
            dict(gen="g3u", count=10 * k, modes=["plain", "spacetime"], nexec=0), dict(gen="g3v", count=8 * k, modes=["plain"], nexec=0), dict(gen="g3dd", count=6 * k, modes=["plain"], nexec=0),
            dict(gen="g4", count=40 * k, modes=["plain", "spacetime"], nexec=0),
            dict(gen="g4b", count=40 * k, modes=["plain"], nexec=0),
            dict(gen="g5", count=20 * k, modes=["plain"], nexec=0),
            dict(gen="g7", count=40 * k, modes=["metrics"], nexec=0),
            dict(gen="g7occ", count=30 * k, modes=["metrics"], nexec=0),
            dict(gen="g7mrg", count=40 * k, modes=["metrics"], nexec=0)]


def nontrivial(rec):
    return "for " in rec.get("text", "")


def check_records(ctx, recs):
    reqs, metas = [], []
    for r in recs:
        if not r["ok"]:
            ctx.stat(("rejected_" if r["err_kind"] == "ValueError" else "compile_crash_") + str(r["err_kind"]))
            continue
        ctx.case([r["text"]], nontrivial(r))
        ctx.stat("mode_" + r["mode"])
        ctx.stat("gen_" + r["gen"].split(":")[0])
        try:
            ast.parse(r["text"])
            ctx.ob(True)
        except SyntaxError as e:
            ctx.ob(False)
            ctx.violation(dict(kind="syntax-error", yaml=r["yaml"], mode=r["mode"], text=r["text"], reason=str(e),
                               hashseed=r["hashseed"]), True)
            continue
        if "tree" not in r:
            ctx.ob(False)
            ctx.violation(dict(kind="unexportable-tree", yaml=r["yaml"], mode=r["mode"], text=r["text"],
                               reason=r.get("tree_error"), obligation="HF tree of the compiler lies outside the modelled AST"), False)
            continue
        reqs.append({"op": "da", "tree": r["tree"], "user": r["user"]})
        metas.append(r)
    ans = common.lean_batch(reqs)
    for r, a in zip(metas, ans):
        if "error" in a:
            raise common.InternalError("lean: " + a["error"])
        same = a["text"] == r["text"]
        ctx.ob(same)
        ctx.ob(a["ok"])
        if len(ctx.samples) < 3 and nontrivial(r):
            ctx.sample({"mode": r["mode"], "einsum": r["yaml"]["einsum"]["expressions"], "mapping": r["yaml"].get("mapping"), "DA": "accepted" if a["ok"] else a["why"]})
        if not same:
            ctx.violation(dict(kind="printer-mismatch", yaml=r["yaml"], mode=r["mode"], text=r["text"], lean_text=a["text"],
                               obligation="HF.Stmt.gen (Lean) = str(HiFiber(...)) — the tree handed to DA is not the program that was printed"), False)
            continue
        if not a["ok"]:
            case = {"predicates": set(), "signature": "unbound:" + a["why"].split("'")[1] if "'" in a["why"] else a["why"]}
            unb = a["why"].split("'")[1] if "'" in a["why"] else ""
            flat = flattened_stamp_vars(r["yaml"])
            if unb in flat:
                case["predicates"].add("coord_stamp_on_flattened_rank")
                case["signature"] = "unbound-flattened-rank-variable"
            tags = set((r.get("case") or {}).get("tags", []))
            if r["mode"] == "metrics" and "eager_root_after_lookup_rank" in tags and ".trace(" in a["why"]:
                case["predicates"].add("eager_trace_before_lookup")
                case["signature"] = "unbound-fiber-in-eager-trace"
            if r["mode"] == "metrics" and "_pos" in a["why"]:
                case["predicates"].add("metrics_mode_interval_position")
                case["signature"] = "unbound-position-variable"
            if r["mode"] == "metrics" and unb.startswith("eager_") and eager_evict_on_own_rank(r["yaml"], unb):
                case["predicates"].add("eager_evict_on_own_rank")
                case["signature"] = "unbound-eager-set"
            f = ctx.match_finding(case)
            if f:
                ctx.known(f, f["what"]); continue
            ctx.violation(dict(kind="unbound-name", yaml=r["yaml"], yaml_text=specs.dump_yaml(r["yaml"]), mode=r["mode"], hashseed=r["hashseed"],
                               text=r["text"], user_names=r["user"], reason=a["why"],
                               obligation="DA (userNames spec) tree = some _  (Props/C06.DA_sound)"), True)


def eager_evict_on_own_rank(d, unb):
    """an eager buffet binding of (tensor, rank) whose evict-on rank is that same rank, and `unb` is that binding's eager set"""
    for ein, comps in (d.get("bindings") or {}).items():
        for comp in comps:
            for b in comp.get("bindings", []) if isinstance(comp, dict) else []:
                if b.get("style") == "eager" and b.get("evict-on") == b.get("rank") and "tensor" in b:
                    if unb.startswith("eager_%s_%s_" % (b["tensor"].lower(), b["rank"].lower())):
                        return True
    return False


def flattened_stamp_vars(d):
    """lower-cased names of flattened ranks (and their levels) that a spacetime stamp names with the coord style"""
    import re
    m = d.get("mapping") or {}
    out = set()
    for ein, parts in (m.get("partitioning") or {}).items():
        flats = ["".join(x.strip() for x in k.strip("()").split(",")) for k in parts if k.startswith("(")]
        st = (m.get("spacetime") or {}).get(ein) or {}
        for ent in list(st.get("space", [])) + list(st.get("time", [])):
            if ent.endswith(".coord"):
                rk = ent[:-6]
                for fl in flats:
                    if re.fullmatch(re.escape(fl) + r"[0-9]*", rk):
                        out.add(rk.lower())
                        # the offset level, too (rank - upper level)
                        mm = re.fullmatch(re.escape(fl) + r"([0-9]+)", rk)
                        if mm:
                            out.add((fl + str(int(mm.group(1)) + 1)).lower())
    return out


def replay_known(ctx):
    """every known finding's witness is replayed against the real compiler on every run"""
    for f in ctx.findings:
        w = f.get("witness")
        if not w:
            continue
        c = specs.compile_spec(w, f.get("witness_mode", "plain"))
        if not c.ok:
            ctx.notes.append("known finding %s: witness no longer compiles (%s) - entry must be revisited" % (f["id"], c.err_kind))
            continue
        rec = dict(gen="known:" + f["id"], idx=0, mode=f.get("witness_mode", "plain"), hashseed="", yaml=w, ok=True,
                   text=c.text, tree=c.tree(), user=pool.user_names(w))
        before = len(ctx.known_hits)
        check_records(ctx, [rec])
        if len(ctx.known_hits) == before:
            ctx.notes.append("known finding %s: witness no longer fails - the defect may have been repaired; entry must be revisited" % f["id"])


def run(ctx):
    ctx.rule = ("corpus specifications in every mode they support + generated G1-G5 (plain, spacetime) and G7 (metrics) specifications, compiled under several "
                "PYTHONHASHSEEDs; non-trivial = program contains a loop; distinct = distinct emitted text")
    ctx.trusted = ["Lean kernel; Props/C06 (DA_sound, closed)", "Python name-binding rules as modelled by HF.Run (DESIGN 7.3)",
                   "userNames(spec) computed by the harness from the specification (pool.user_names)", "CPython ast.parse for 'parses as Python'"]
    ctx.assumptions = ["partition-level extents (K0, Q1, ...) and symbolic sizes count as user-supplied rank extents"]
    items = [it for it in plan(ctx) if it["gen"] != "g7" or has_g7()]
    recs = pool.collect(ctx, items)
    check_records(ctx, recs)
    replay_known(ctx)


def has_g7():
    try:
        import gens7  # noqa
        return True
    except ImportError:
        return False


def replay(ctx, path):
    rep = json.load(open(path))
    c = specs.compile_spec(rep["yaml"], rep["mode"])
    rec = dict(gen="replay", idx=0, mode=rep["mode"], hashseed="", yaml=rep["yaml"], ok=c.ok, err_kind=c.err_kind, err_msg=c.err_msg)
    if c.ok:
        rec.update(text=c.text, tree=c.tree(), user=pool.user_names(rep["yaml"]))
    check_records(ctx, [rec])
    return ctx.finish()
