"""Differential between the Lean reference semantics of the fibertree tensor operations (TeaalVerif/FT/Ops.lean)
and the minifiber stand-in that executes the real emitted programs."""
import itertools, random
import common, minifiber


def to_pts(t):
    """minifiber tensor -> [[coords as lists], value] sorted"""
    out = []
    for k, v in sorted(t.points().items()):
        out.append([[list(c) if isinstance(c, tuple) else [c] for c in k], v])
    return out


def rand_tensor(rng, nranks):
    exts = [rng.randint(1, 7) for _ in range(nranks)]
    pts = {}
    for p in itertools.product(*[range(e) for e in exts]):
        if rng.random() < 0.45:
            pts[p] = rng.choice([-2, -1, 1, 2, 3])
    ranks = ["R%d" % i for i in range(nranks)]
    return minifiber.Tensor.fromPoints(ranks, pts, "T"), ranks


def cases(rng, n, ops=("swizzle", "splitUniform", "mergeAbs", "flatten", "unflatten", "split_merge")):
    reqs, expect = [], []
    for _ in range(n):
        op = rng.choice(ops)
        nr = rng.randint(1, 3) if op not in ("flatten",) else rng.randint(2, 3)
        t, ranks = rand_tensor(rng, nr)
        pts = to_pts(t)
        if op == "swizzle":
            perm = list(range(nr)); rng.shuffle(perm)
            r = t.swizzleRanks([ranks[i] for i in perm])
            reqs.append({"op": "ft_op", "name": "swizzle", "perm": perm, "pts": pts}); expect.append(("swizzle", to_pts(r), True))
        elif op == "splitUniform":
            d, s = rng.randrange(nr), rng.randint(1, 9)
            r = t.splitUniform(s, depth=d)
            reqs.append({"op": "ft_op", "name": "splitUniform", "step": s, "depth": d, "pts": pts}); expect.append(("splitUniform", to_pts(r), False))
        elif op in ("mergeAbs", "split_merge"):
            d, s = rng.randrange(nr), rng.randint(1, 9)
            sp = t.splitUniform(s, depth=d)
            r = sp.mergeRanks(depth=d, levels=1, coord_style="absolute")
            reqs.append({"op": "ft_op", "name": "mergeAbs", "depth": d, "pts": to_pts(sp)}); expect.append(("mergeAbs", to_pts(r), True))
        elif op == "flatten":
            d = rng.randrange(nr - 1)
            r = t.flattenRanks(depth=d, levels=1, coord_style="tuple")
            reqs.append({"op": "ft_op", "name": "flatten", "depth": d, "pts": pts}); expect.append(("flatten", to_pts(r), True))
        elif op == "unflatten":
            if nr < 2:
                continue
            d = rng.randrange(nr - 1)
            fl = t.flattenRanks(depth=d, levels=1, coord_style="tuple")
            r = fl.unflattenRanks(depth=d, levels=1)
            reqs.append({"op": "ft_op", "name": "unflatten", "depth": d, "k": 1, "pts": to_pts(fl)}); expect.append(("unflatten", to_pts(r), True))
    return reqs, expect


def run(ctx, rng, n, ops=None):
    reqs, expect = cases(rng, n, ops) if ops else cases(rng, n)
    for req, (name, want, sort_), a in zip(reqs, expect, common.lean_batch(reqs)):
        if "error" in a:
            raise common.InternalError("lean: " + a["error"])
        got = sorted(a["pts"]) if sort_ else sorted(a["pts"])
        ok = got == sorted(want)
        ctx.ob(ok); ctx.stat("ft_op_" + name)
        if not ok:
            ctx.violation(dict(kind="ft-model", op=req, lean=a["pts"], minifiber=want,
                               obligation="FT.%s (Lean) = minifiber.%s on the same tensor" % (name, name)), False)


def run_fibers(ctx, rng, n):
    """occupancy splitting of one fiber: leader chunk keys (splitEqual) and follower groups (splitNonUniform)"""
    reqs, expect = [], []
    for _ in range(n):
        ext = rng.randint(1, 14)
        cs = sorted(rng.sample(range(ext), rng.randint(0, ext)))
        fs = sorted(rng.sample(range(ext), rng.randint(0, ext)))
        size = rng.randint(1, 5)
        leader = minifiber.Fiber(cs, [minifiber.Payload(1) for _ in cs])
        follower = minifiber.Fiber(fs, [minifiber.Payload(1) for _ in fs])
        up = leader.splitEqual(size)
        keys = up.getCoords()
        fup = follower.splitNonUniform(up)
        groups = {}
        for k, f in zip(fup.coords, fup.payloads):
            for c in f.coords:
                groups[c] = k
        reqs.append({"op": "ft_fiber", "coords": cs, "n": size, "bounds": keys})
        expect.append((cs, size, keys, [groups.get(c) for c in cs if True], fs, groups))
        reqs.append({"op": "ft_fiber", "coords": fs, "n": size, "bounds": keys})
        expect.append((fs, None, keys, [groups.get(c) for c in fs], fs, groups))
    for req, (cs, size, keys, want_groups, fs, groups), a in zip(reqs, expect, common.lean_batch(reqs)):
        if "error" in a:
            raise common.InternalError("lean: " + a["error"])
        ok = True
        if size is not None:
            ok = a["chunk_keys"] == keys
            # follower groups of leader coordinates that the follower also holds
            ok = ok and all(g == groups[c] for c, g in zip(cs, a["groups"]) if c in groups)
        else:
            ok = a["groups"] == want_groups
        ctx.ob(ok); ctx.stat("ft_fiber_occupancy")
        if not ok:
            ctx.violation(dict(kind="ft-model", op=req, lean=a, minifiber=dict(keys=keys, groups=sorted(groups.items())),
                               obligation="FT occupancy model (leaderKeys / groupOf) = minifiber splitEqual / splitNonUniform"), False)


def run_project(ctx, rng, n):
    """project + prune on one fiber, dyadic strides: exact arithmetic (Lean) vs float evaluation (minifiber)"""
    reqs, expect = [], []
    for _ in range(n):
        a = rng.choice([1, 2, 4, 8])
        r = rng.randint(0, 9)
        ext = rng.randint(1, 30)
        ws = sorted(rng.sample(range(ext), rng.randint(0, min(ext, 12))))
        lo, hi = 0, rng.randint(1, 12)
        f = minifiber.Fiber(ws, [minifiber.Payload(1) for _ in ws])
        g = f.project(trans_fn=lambda w: 1 / a * w + -r / a, interval=(lo, hi)).prune(trans_fn=lambda i, c, p: c % 1 == 0)
        reqs.append({"op": "ft_project", "coords": ws, "a": a, "r": r, "lo": lo, "hi": hi})
        expect.append([int(c) for c in g.coords])
    for req, want, ans in zip(reqs, expect, common.lean_batch(reqs)):
        if "error" in ans:
            raise common.InternalError("lean: " + ans["error"])
        ok = ans["coords"] == want
        ctx.ob(ok); ctx.stat("ft_project")
        if not ok:
            ctx.violation(dict(kind="ft-model", op=req, lean=ans["coords"], minifiber=want,
                               obligation="exact projection (Props/C04.project_*) = minifiber project+prune for dyadic strides"), False)
