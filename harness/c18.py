"""C18 — stated mapping-legality rules are enforced for every instance.
Theorems: Props/C18 (every instance of a rule, as the property words it, makes the guard written from the code
fire; legal declarations pass).  Tie (G8): each rule is injected into otherwise legal specifications at every
position it can occur; the real pipeline (parsing + HiFiber(...)) must raise ValueError before any text is
returned; the Lean guard models must fire on the same structured input (model = implementation on rejection)
and stay silent on the legal base specification, which the compiler must accept."""
import copy, json, random, re
import common, specs, gens


def outcome(d, mode="plain"):
    c = specs.compile_spec(d, mode)
    if c.ok:
        return "compiled", c.text
    return c.err_kind, c.err_msg


def mm(rng, names=("K", "M", "N")):
    K, M, N = names
    return {"einsum": {"declaration": {"A": [K, M], "B": [K, N], "Z": [M, N]},
                       "expressions": ["Z[%s, %s] = A[%s, %s] * B[%s, %s]" % (M.lower(), N.lower(), K.lower(), M.lower(), K.lower(), N.lower())]},
            "mapping": {}}


def injections(rng):
    """yields (rule, base legal spec or None, illegal spec, mode, lean request or None)"""
    names = rng.choice([("K", "M", "N"), ("J", "I", "P"), ("K", "I", "PI")])
    K, M, N = names
    k, m, n = K.lower(), M.lower(), N.lower()
    # ---- R1 duplicate rank in a declaration: every tensor x every position
    for tname, ranks in (("A", [K, M]), ("B", [K, N]), ("Z", [M, N])):
        for pos in range(len(ranks) + 1):
            for dup in ranks:
                base = mm(rng, names)
                bad = copy.deepcopy(base)
                nr = list(ranks)
                nr.insert(pos, dup)
                bad["einsum"]["declaration"][tname] = nr
                acc = lambda rs: ", ".join(r.lower() for r in rs)
                decl = bad["einsum"]["declaration"]
                bad["einsum"]["expressions"] = ["Z[%s] = A[%s] * B[%s]" % (acc(decl["Z"]), acc(decl["A"]), acc(decl["B"]))]
                yield ("duplicate-rank-in-declaration", base, bad, "plain", {"op": "legality", "kind": "dup", "ranks": nr},
                       {"op": "legality", "kind": "dup", "ranks": ranks})
    # ---- R2 undeclared / repeated tensor
    base = mm(rng, names)
    bad = copy.deepcopy(base)
    bad["einsum"]["expressions"] = [base["einsum"]["expressions"][0].replace("B[", "Q[")]
    yield ("undeclared-tensor", base, bad, "plain", {"op": "legality", "kind": "undeclared", "declared": sorted(base["einsum"]["declaration"]), "used": ["Z", "A", "Q"]},
           {"op": "legality", "kind": "undeclared", "declared": sorted(base["einsum"]["declaration"]), "used": ["Z", "A", "B"]})
    # the undeclared tensor as output, as first factor, and in a later Einsum of a cascade
    bad = copy.deepcopy(base)
    bad["einsum"]["expressions"] = [base["einsum"]["expressions"][0].replace("A[", "Q[")]
    yield ("undeclared-tensor", base, bad, "plain", {"op": "legality", "kind": "undeclared", "declared": sorted(base["einsum"]["declaration"]), "used": ["Z", "Q", "B"]}, None)
    bad = copy.deepcopy(base)
    bad["einsum"]["expressions"] = [base["einsum"]["expressions"][0].replace("Z[", "Q[")]
    yield ("undeclared-tensor", base, bad, "plain", {"op": "legality", "kind": "undeclared", "declared": sorted(base["einsum"]["declaration"]), "used": ["Q", "A", "B"]}, None)
    bad = copy.deepcopy(base)
    bad["einsum"]["declaration"]["Y"] = list(base["einsum"]["declaration"]["Z"])
    bad["einsum"]["expressions"] = [base["einsum"]["expressions"][0], "Y[%s, %s] = Z[%s, %s] * Q[%s]" % (m, n, m, n, m)]
    yield ("undeclared-tensor", base, bad, "plain", {"op": "legality", "kind": "undeclared", "declared": sorted(bad["einsum"]["declaration"]), "used": ["Y", "Z", "Q"]}, None)
    bad = copy.deepcopy(base)
    bad["einsum"]["expressions"] = ["Z[%s, %s] = A[%s, %s] * A[%s, %s]" % (m, n, k, m, k, m)]
    yield ("repeated-tensor", base, bad, "plain", {"op": "legality", "kind": "dup", "ranks": ["A", "A"]}, {"op": "legality", "kind": "dup", "ranks": ["A", "B"]})
    bad = copy.deepcopy(base)
    bad["einsum"]["declaration"]["C"] = [K, N]
    bad["einsum"]["expressions"] = ["Z[%s, %s] = A[%s, %s] * B[%s, %s] + C[%s, %s] * A[%s, %s]" % (m, n, k, m, k, n, k, n, k, m)]
    yield ("repeated-tensor", base, bad, "plain", {"op": "legality", "kind": "dup", "ranks": ["A", "B", "C", "A"]}, None)
    # ---- R3 terms over different rank sets: every term position, missing or extra rank
    decl = {"A": [K, M], "B": [K, N], "C": [M, N], "D": [M, N], "E": [K, M, N], "F": [M], "Z": [M, N]}
    t_full = ["A[%s, %s] * B[%s, %s]" % (k, m, k, n), "E[%s, %s, %s]" % (k, m, n)]
    t_less = ["C[%s, %s]" % (m, n), "D[%s, %s]" % (m, n)]
    t_least = ["F[%s]" % m]
    rs_full, rs_less, rs_least = [K, M, K, N], [M, N], [M]
    base = {"einsum": {"declaration": decl, "expressions": ["Z[%s, %s] = %s + %s" % (m, n, t_full[0], t_full[1])]}, "mapping": {"loop-order": {"Z": [M, N, K]}}}
    for order in ([t_full[0], t_less[0]], [t_less[0], t_full[0]], [t_less[0], t_less[1], t_full[0]], [t_full[0], t_full[1], t_less[0]],
                  [t_full[0], t_less[0], t_full[1]], [t_less[0], t_full[0], t_less[1]], [t_least[0], t_less[0]], [t_less[0], t_least[0]]):
        for lo in (None, [M, N, K], [K, M, N]):
            bad = copy.deepcopy(base)
            bad["einsum"]["expressions"] = ["Z[%s, %s] = %s" % (m, n, " + ".join(order))]
            if lo is None:
                bad["mapping"] = {}
            else:
                bad["mapping"]["loop-order"] = {"Z": lo}
            ranks_of = {t_full[0]: [K, M, K, N], t_full[1]: [K, M, N], t_less[0]: [M, N], t_less[1]: [M, N], t_least[0]: [M]}
            yield ("terms-over-different-rank-sets", base, bad, "plain",
                   {"op": "legality", "kind": "terms", "terms": [ranks_of[t] for t in order]},
                   {"op": "legality", "kind": "terms", "terms": [[K, M, K, N], [K, N, M, K]]})
    # ---- R4-R7 partitioning stacks
    orig = [M, N, K]

    def stack_case(rule, parts, loop, key, ops, im=(), ap=(), allr=None, base_parts=None, base_loop=None, einsum=None, decl=None):
        base = mm(rng, names)
        if einsum:
            base["einsum"]["expressions"] = [einsum]
            base["einsum"]["declaration"] = decl
        bad = copy.deepcopy(base)
        bad["mapping"] = {"partitioning": {"Z": parts}}
        if loop:
            bad["mapping"]["loop-order"] = {"Z": loop}
        if base_parts is not None:
            base["mapping"] = {"partitioning": {"Z": base_parts}}
            if base_loop:
                base["mapping"]["loop-order"] = {"Z": base_loop}
        req = {"op": "legality", "kind": "stack", "key": key, "ops": ops, "index_math": list(im), "also_part": list(ap),
               "orig": orig if not einsum else [r for r in decl["Z"]] + [r for t in decl for r in decl[t] if r not in decl["Z"]], "all": allr or orig}
        return (rule, base, bad, "plain", req, None)
    KM = K + M
    for sz in (rng.randint(1, 5), "TILE"):
        occ = "uniform_occupancy(A.%s)" % sz
        # n-way after occupancy, at every later position of stacks of length 2..3
        for stack, ops in (([occ, "nway_shape(2)"], ["uniform_occupancy", "nway_shape"]),
                           ([occ, "uniform_shape(2)", "nway_shape(2)"], ["uniform_occupancy", "uniform_shape", "nway_shape"]),
                           (["uniform_shape(8)", occ, "nway_shape(2)"], ["uniform_shape", "uniform_occupancy", "nway_shape"]),
                           ([occ, occ.replace("A.", "B."), "nway_shape(3)"], ["uniform_occupancy", "uniform_occupancy", "nway_shape"])):
            yield stack_case("nway-after-occupancy", {K: stack}, None, [K], ops, base_parts={K: [occ]})
    yield stack_case("flatten-combined", {"(%s, %s)" % (K, M): ["flatten()", "uniform_occupancy(A.4)"]}, None, [K, M], ["flatten", "uniform_occupancy"],
                     base_parts={"(%s, %s)" % (K, M): ["flatten()"]}, base_loop=[KM, N])
    yield stack_case("flatten-combined", {"(%s, %s)" % (K, M): ["uniform_shape(4)", "flatten()"]}, None, [K, M], ["uniform_shape", "flatten"],
                     base_parts={"(%s, %s)" % (K, M): ["flatten()"]}, base_loop=[KM, N])
    for r in (K, M, N):
        yield stack_case("flatten-fewer-than-two", {r: ["flatten()"]}, None, [r], ["flatten"], base_parts={})
    for r, other in ((K, M), (M, K)):
        yield stack_case("flatten-also-partitioned", {"(%s, %s)" % (K, M): ["flatten()"], r: ["uniform_shape(4)"]}, None, [K, M], ["flatten"], ap=[r],
                         base_parts={"(%s, %s)" % (K, M): ["flatten()"]}, base_loop=[KM, N])
        yield stack_case("flatten-also-partitioned", {"(%s, %s)" % (K, M): ["flatten()"], r: ["uniform_occupancy(A.3)"]}, None, [K, M], ["flatten"], ap=[r],
                         base_parts={"(%s, %s)" % (K, M): ["flatten()"]}, base_loop=[KM, N])
    # already flattened rank flattened again (3-rank tensor)
    decl3 = {"A": [K, M, N], "Z": [N]}
    ein3 = "Z[%s] = A[%s, %s, %s]" % (n, k, m, n)
    yield stack_case("flatten-already-flattened", {"(%s, %s)" % (K, M): ["flatten()"], "(%s, %s)" % (KM, N): ["flatten()"]}, None, [KM, N], ["flatten"],
                     allr=[N, K, M, KM], base_parts={"(%s, %s)" % (K, M): ["flatten()"]}, base_loop=[KM, N], einsum=ein3, decl=decl3)
    # index math
    declc = {"I": ["W"], "F": ["S"], "O": ["Q"]}
    base = {"einsum": {"declaration": declc, "expressions": ["O[q] = I[q + s] * F[s]"]}, "mapping": {}}
    for key in (("Q", "S"), ("S", "Q")):
        bad = copy.deepcopy(base)
        bad["mapping"] = {"partitioning": {"O": {"(%s, %s)" % key: ["flatten()"]}}}
        yield ("flatten-index-math", base, bad, "plain",
               {"op": "legality", "kind": "stack", "key": list(key), "ops": ["flatten"], "index_math": ["Q", "S", "W"], "also_part": [], "orig": ["Q", "S"], "all": ["Q", "S"]}, None)
    for d in ("uniform_shape(4)", "nway_shape(2)", "uniform_occupancy(A.4)"):
        yield stack_case("non-flatten-directive-on-tuple", {"(%s, %s)" % (K, M): [d]}, None, [K, M], [d.split("(")[0]], base_parts={K: [d]})
    for d in ("uniform_shape(4)", "nway_shape(2)"):
        yield stack_case("shape-split-after-flattening", {"(%s, %s)" % (K, M): ["flatten()"], KM: [d]}, [KM + "1", KM + "0", N], [KM], [d.split("(")[0]],
                         allr=orig + [KM], base_parts={"(%s, %s)" % (K, M): ["flatten()"], KM: ["uniform_occupancy(A.4)"]}, base_loop=[KM + "1", KM + "0", N])
    # ---- R8 loop orders
    base = {"einsum": {"declaration": declc, "expressions": ["O[q] = I[q + s] * F[s]"]}, "mapping": {"loop-order": {"O": ["Q", "S"]}}}
    for lo in (["W", "S"], ["S", "W"]):
        bad = copy.deepcopy(base)
        bad["mapping"]["loop-order"] = {"O": lo}
        yield ("loop-order-projects-into-output", base, bad, "plain", None, None)
    # more instances: strides, a channel rank, TWO output variables in one access (the projected-into output rank is then missing
    # from the loop order altogether); every permutation of the loop order in which an output variable's rank is replaced by the
    # accessed tensor's own rank
    import itertools
    fam = [({"I": ["W"], "F": ["S"], "O": ["Q"]}, "O[q] = I[2 * q + s] * F[s]", ["Q", "S"], ["Q"]),
           ({"I": ["C", "W"], "F": ["C", "S"], "O": ["C", "Q"]}, "O[c, q] = I[c, q + s] * F[c, s]", ["C", "Q", "S"], ["Q"]),
           ({"I": ["W"], "F": ["S"], "O": ["P", "Q"]}, "O[p, q] = I[p + q + s] * F[s]", ["P", "Q", "S"], ["P", "Q"]),
           ({"I": ["W"], "F": ["S"], "G": ["Q"], "O": ["Q"]}, "O[q] = I[q + s] * F[s] * G[q]", ["Q", "S"], ["Q"])]
    for decl_, expr, ranks, outs in fam:
        base = {"einsum": {"declaration": decl_, "expressions": [expr]}, "mapping": {"loop-order": {"O": list(ranks)}}}
        for X in outs:
            for perm in itertools.permutations([("W" if r == X else r) for r in ranks]):
                bad = copy.deepcopy(base)
                bad["mapping"]["loop-order"] = {"O": list(perm)}
                yield ("loop-order-projects-into-output", base, bad, "plain", None, None)
    base = {"einsum": {"declaration": {"A": [K], "Z": [M, N]}, "expressions": ["Z[%s, %s] = A[%s]" % (m, n, k)]}, "mapping": {}}
    for lo in ([K, M + N], [M + N, K]):
        bad = copy.deepcopy(base)
        bad["mapping"] = {"partitioning": {"Z": {"(%s, %s)" % (M, N): ["flatten()"]}}, "loop-order": {"Z": lo}}
        yield ("iterate-output-only-flattened-rank", base, bad, "plain", None, None)
    # ---- R9 Einsum without accelerator config in the bindings
    for name, d in specs.corpus():
        if not specs.has_metrics(d):
            continue
        for ein in list(d["bindings"].keys()):
            bad = copy.deepcopy(d)
            bad["bindings"][ein] = [b for b in bad["bindings"][ein] if "config" not in b]
            flags = lambda dd: [[("config" in b) for b in dd["bindings"][e2]] for e2 in dd["bindings"]]
            yield ("einsum-without-config", d, bad, "metrics", {"op": "legality", "kind": "config", "einsums": flags(bad)},
                   {"op": "legality", "kind": "config", "einsums": flags(d)})


def entry_orders(rule, base, bad, mode, req_bad, req_base):
    """the same injected specification with the entries of every mapping dictionary in every order (the rules must not depend
    on the order in which the user wrote the partitioning / loop-order / rank-order entries)"""
    import itertools
    yield (rule, base, bad, mode, req_bad, req_base)
    parts = ((bad.get("mapping") or {}).get("partitioning") or {})
    for out, entries in parts.items():
        keys = list(entries.keys())
        if 2 <= len(keys) <= 3:
            for perm in list(itertools.permutations(keys))[1:]:
                b2 = copy.deepcopy(bad)
                b2["mapping"]["partitioning"][out] = {k: copy.deepcopy(entries[k]) for k in perm}
                yield (rule + "/entry-order", None, b2, mode, None, None)


def outrank_request(d):
    """the inputs of `Header.__make_shape`'s scan, read from the real IR at the point the header is made: the output's ranks (after
    partitioning and the loop-order swizzle) and, per rank and loop position, `LoopOrder.is_ready` of the rank's final id"""
    from teaal.parse import Einsum, Mapping
    from teaal.ir.program import Program
    dd = copy.deepcopy(d)
    dd.setdefault("mapping", {})
    p = Program(Einsum(copy.deepcopy(dd)), Mapping(copy.deepcopy(dd)))
    p.add_einsum(0)
    out = p.get_equation().get_output()
    p.apply_all_partitioning(out)
    lo = p.get_loop_order()
    lo.apply(out)
    part = p.get_partitioning()
    ranks = list(out.get_ranks())
    n = len(lo.get_ranks())
    ready = [[bool(lo.is_ready(part.get_final_rank_id(out.get_init_ranks(), r), pos)) for pos in range(n)] for r in ranks]
    return {"op": "legality", "kind": "outrank", "ranks": ranks, "ready": ready, "nloops": n}


def run(ctx):
    ctx.rule = ("each legality rule injected into otherwise legal specifications at every position (every tensor and rank position for duplicates, every term position and direction "
                "for rank sets, every stack position for n-way after occupancy, every key for the flatten rules, every Einsum of the accelerator specifications for the missing config); "
                "non-trivial = injected specification whose legal base compiles; distinct = distinct (rule, specification)")
    ctx.trusted = ["Lean kernel; Props/C18 (guard level)", "guard models = the compiler's guards is compared on every injected case (sampled over base specifications)",
                   "the property's wording of each rule is the harness's construction of the injected specification"]
    rng = random.Random(ctx.seed * 6151 + 18)
    reqs, metas = [], []
    rounds = 1 if ctx.tier == "quick" else 5
    for _ in range(rounds):
        for rule, base, bad, mode, req_bad, req_base in (v for inj in injections(rng) for v in entry_orders(*inj)):
            ob, _ = outcome(base, mode) if base is not None else ("compiled", None)
            kind, msg = outcome(bad, mode)
            ctx.case([rule, bad], nontrivial=ob == "compiled")
            ctx.stat("rule_" + rule)
            if ob != "compiled":
                ctx.stat("base_not_legal_" + str(ob))
            ok = kind == "ValueError"
            ctx.ob(ok)
            if len(ctx.samples) < 5 and rule not in [x["rule"] for x in ctx.samples] and rule.startswith(("terms", "nway", "flatten-also", "shape", "loop")):
                ctx.sample({"rule": rule, "einsum": bad["einsum"]["expressions"], "mapping": bad.get("mapping"), "outcome": "%s: %s" % (kind, str(msg)[:80])})
            if not ok:
                case = {"predicates": {rule.split("/")[0]}, "signature": "compiled" if kind == "compiled" else "raises-" + str(kind)}
                f = ctx.match_finding(case)
                if f:
                    ctx.known(f, f["what"]); continue
                ctx.violation(dict(kind="illegal-spec-not-rejected", rule=rule, yaml=bad, yaml_text=specs.dump_yaml(bad), mode=mode, outcome=kind,
                                   detail=str(msg)[:600],
                                   reason=("the illegal specification (%s) was compiled and %d characters of program text returned" % (rule, len(msg))) if kind == "compiled"
                                   else "the illegal specification (%s) raises %s instead of ValueError" % (rule, kind)), True)
            if rule == "loop-order-projects-into-output":
                # the scan of Header.__make_shape (C18.outScan_iff): model on the real IR's availability table vs the guard that fired
                for dd, (k2, m2) in ((bad, (kind, msg)), (base, outcome(base, mode))):
                    try:
                        rq = outrank_request(dd)
                    except Exception:
                        ctx.stat("outrank_request_failed"); continue
                    fired = k2 == "ValueError" and "Cannot project into the output tensor. Add " in str(m2)
                    reqs.append(rq); metas.append((rule + "/out-rank-scan", dd, fired))
            if req_bad is not None:
                reqs.append(req_bad); metas.append((rule, bad, True))
            if req_base is not None:
                reqs.append(req_base); metas.append((rule, base, False))
    for (rule, d, should_reject), a in zip(metas, common.lean_batch(reqs)):
        if "error" in a:
            raise common.InternalError("lean: " + a["error"])
        ok = a["reject"] == should_reject
        ctx.ob(ok)
        if not ok:
            ctx.violation(dict(kind="guard-model", rule=rule, yaml=d, lean=a, expected_reject=should_reject,
                               obligation="Legality guard models (Props/C18) on the structured form of the specification"), False)


def replay(ctx, path):
    rep = json.load(open(path))
    kind, msg = outcome(rep["yaml"], rep.get("mode", "plain"))
    ctx.ob(kind == "ValueError")
    if kind != "ValueError":
        ctx.violation(rep, True)
    return ctx.finish()
