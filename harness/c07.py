"""C07 — tensor variable names tell the truth and inputs are never modified.
Theorems: Props/C07 (name_spells, swizzle_perm, reset_restores, init_ranks_const: every tensor, every history of
cursor operations).  Tie: (a) the cursor model vs the real teaal.ir.tensor.Tensor on random operation sequences;
(b) the Lean rank-id interpreter follows every tensor operation of the real emitted trees: every precondition
on rank ids holds, no setRankIds reaches a user input (also through aliases), every variable <Name>_<Ranks>
ends with rank ids spelling <Ranks>, each Einsum's result is bound under <Output>_<declared-or-rank-order ranks>;
(c) execution: inputs hold the same data and rank ids afterwards, results have original coordinates (= oracle)."""
import json, random
import common, pool, specs, gens, c02, semcheck


def cursor_cases(rng, n):
    from teaal.ir.tensor import Tensor
    reqs, expect = [], []
    for _ in range(n):
        ranks = rng.sample(["K", "M", "N", "I", "PI", "J1", "Q0"], rng.randint(0, 4))
        name = rng.choice(["A", "Z", "T1", "Out"])
        t = Tensor(name, list(ranks))
        ops, states = [], []
        for _ in range(rng.randint(1, 8)):
            kind = rng.choice(["swizzle", "swizzle", "update_ranks", "from_fiber", "pop", "pop", "set_is_output", "reset"])
            active = t.get_ranks()
            if kind == "swizzle":
                order = list(active)
                rng.shuffle(order)
                if rng.random() < 0.15 and order:
                    order = order[:-1] + ["XX"]
                op = ["swizzle", order]
                fn = lambda: t.swizzle(order)
            elif kind == "update_ranks":
                new = list(active)
                if new and rng.random() < 0.6:
                    i = rng.randrange(len(new))
                    new[i:i + 1] = [new[i] + "1", new[i] + "0"]
                elif len(new) >= 2:
                    i = rng.randrange(len(new) - 1)
                    new[i:i + 2] = [new[i] + new[i + 1]]
                op = ["update_ranks", new]
                fn = lambda: t.update_ranks(new)
            elif kind == "from_fiber":
                op, fn = ["from_fiber"], t.from_fiber
            elif kind == "pop":
                op, fn = ["pop"], t.pop
            elif kind == "set_is_output":
                b = rng.random() < 0.5
                op, fn = ["set_is_output", b], (lambda: t.set_is_output(b))
            else:
                op, fn = ["reset"], t.reset
            ops.append(op)
            try:
                fn()
                states.append({"tensor_name": t.tensor_name(), "fiber_name": t.fiber_name(), "ranks": t.get_ranks()})
            except (ValueError, IndexError):
                states.append(None)
                break
        reqs.append({"op": "cursor", "name": name, "ranks": ranks, "ops": ops}); expect.append(states)
    return reqs, expect


def expected_results(rec):
    d = rec["yaml"]
    decl = d["einsum"]["declaration"]
    ro = (d.get("mapping") or {}).get("rank-order") or {}
    outs = []
    for ex in d["einsum"]["expressions"]:
        n = ex.split("[")[0].strip()
        outs.append(n + "_" + "".join(ro.get(n) or decl[n]))
    return outs


def input_vars(rec):
    d = rec["yaml"]
    decl = d["einsum"]["declaration"]
    ro = (d.get("mapping") or {}).get("rank-order") or {}
    res = []
    for v in rec["user"]:
        n, _, r = v.partition("_")
        if n in decl and "_" in v and "".join(ro.get(n) or decl[n]) == r:
            res.append([v, list(ro.get(n) or decl[n])])
    return res


def run(ctx):
    ctx.rule = ("(a) random operation sequences on the tensor cursor; (b) emitted trees of G1-G5 specifications (plain) through the rank-id interpreter; (c) the same programs executed on "
                "2 random inputs; non-trivial = program with a partitioning or swizzle statement; distinct = distinct text / operation sequence")
    ctx.trusted = ["Lean kernel; Props/C07 (cursor level), Props/C07Heap (heap of tensor objects with aliasing)", "RankHeap.chk (C07.chk_sound: one pass over the tree is sound for every execution) over the rank-id effect of each fibertree call as read in RankIds.methodIds; the translator Stmt -> Prog (Driver.progOf) is part of the tie; data-level facts "
                   "(inputs unmodified, original coordinates) are observed by execution on sampled inputs", "cursor model = teaal.ir.tensor.Tensor is sampled"]
    rng = random.Random(ctx.seed * 769 + 7)
    k = 1 if ctx.tier == "quick" else 8
    reqs, expect = cursor_cases(rng, 250 * k)
    for req, want, a in zip(reqs, expect, common.lean_batch(reqs)):
        if "error" in a:
            raise common.InternalError("lean: " + a["error"])
        got = a["states"][:len(want)]
        ok = got == want
        ctx.case(req, nontrivial=len(req["ops"]) >= 2); ctx.ob(ok); ctx.stat("cursor_sequences")
        if not ok:
            ctx.violation(dict(kind="cursor-model", request=req, model=got, implementation=want,
                               obligation="Cursor.step (Props/C07) = teaal.ir.tensor.Tensor on this operation sequence"), False)
    recs = pool.collect(ctx, [dict(gen="g1", count=20 * k, modes=["plain"], nexec=1, opts={"allow_take": False}), dict(gen="g2", count=40 * k, modes=["plain"], nexec=2),
                              dict(gen="g3", count=40 * k, modes=["plain"], nexec=2), dict(gen="g4", count=25 * k, modes=["plain"], nexec=0),
                              dict(gen="g5", count=25 * k, modes=["plain"], nexec=2), dict(gen="g3w", count=12 * k, modes=["plain"], nexec=2), dict(gen="g5flat", count=12 * k, modes=["plain"], nexec=2), dict(gen="g3ff", count=12 * k, modes=["plain"], nexec=2), dict(gen="g3v", count=8 * k, modes=["plain"], nexec=2)])
    reqs, metas = [], []
    for r in recs:
        if not r["ok"]:
            ctx.stat(("rejected_" if r["err_kind"] == "ValueError" else "compile_crash_") + str(r["err_kind"])); continue
        ctx.case([r["text"]], nontrivial=any(s in r["text"] for s in ("split", "swizzle", "flatten")))
        ctx.stat("gen_" + r["gen"])
        reqs.append({"op": "rankheap", "tree": r["tree"], "inputs": input_vars(r)}); metas.append(r)
    names = None
    # the earlier straight-line interpreter (no theorem) stays as a second reading: where it accepts, the two must agree on the
    # rank ids of every variable alive at the end of the program
    old = common.lean_batch([dict(q, op="rankids") for q in reqs])
    for (r, a), a0 in zip(zip(metas, common.lean_batch(reqs)), old):
        if "error" in a:
            raise common.InternalError("lean: " + a["error"])
        ctx.stat("tensor_ops", a.get("ops", 0)); ctx.stat("loops", a.get("loops", 0)); ctx.stat("tensor_ops_inside_loops", a.get("tensor_ops_inside_loops", 0))
        if a["ok"] and a0.get("ok"):
            f1, f0 = dict((x, ids) for x, ids in a["final"]), dict((x, ids) for x, ids in a0["final"])
            agree = all(f0.get(x) == ids for x, ids in f1.items())
            ctx.ob(agree)
            if not agree:
                ctx.violation(dict(kind="rank-ids-readings-differ", yaml=r["yaml"], heap=a["final"], straight_line=a0["final"],
                                   obligation="RankHeap.chk and RankIds.interp agree on the variables alive at the end"), False)
        decl = r["yaml"]["einsum"]["declaration"]
        problems = []
        if not a["ok"]:
            problems.append(a["why"])
        else:
            final = dict((x, ids) for x, ids in a["final"])
            for x, ids in list(final.items()) + [(x, ids) for x, ids in a.get("scoped", [])]:
                n, _, rk = x.partition("_")
                if n in decl and "_" in x:
                    if rk.endswith("_flat"):
                        rk = rk[:-5]
                    if "".join(ids) != rk:
                        problems.append("variable %s ends with rank ids %r" % (x, ids))
            for out in expected_results(r):
                if out not in final:
                    problems.append("result %s is never bound" % out)
            if not a["inputs_unchanged"]:
                problems.append("an input tensor's rank ids are changed")
        ctx.ob(not problems)
        if len(ctx.samples) < 3 and a["ok"] and "split" in r["text"]:
            ctx.sample({"einsum": r["yaml"]["einsum"]["expressions"], "partitioning": (r["yaml"].get("mapping") or {}).get("partitioning"),
                        "final_rank_ids": [x for x in a["final"] if x[0].split("_")[0] in decl][:6]})
        if problems:
            ctx.violation(dict(kind="rank-ids", yaml=r["yaml"], yaml_text=specs.dump_yaml(r["yaml"]), hashseed=r["hashseed"], text=r["text"], reason="; ".join(problems)), True)
    # (b') inputs are never modified, for EVERY execution: the origin of every fiber / payload reference is followed through the real
    # tree (C07.tchk_sound); an in-place update (`+=`, `<<=`, left operand of `<<`) of a value rooted in a user input, or of unknown
    # origin, is refused
    for r, a in zip(metas, common.lean_batch([{"op": "taint_check", "tree": r["tree"], "inputs": input_vars(r)} for r in metas])):
        if "error" in a:
            raise common.InternalError("lean: " + a["error"])
        ctx.ob(a["ok"]); ctx.stat("in_place_updates_checked", a.get("mutations", 0))
        if not a["ok"]:
            bad = [ex for ex in r.get("execs", []) if ex.get("ok") and ex.get("inputs_modified")]
            ctx.violation(dict(kind="input-origin", yaml=r["yaml"], yaml_text=specs.dump_yaml(r["yaml"]), hashseed=r["hashseed"], text=r["text"], reason=a["why"],
                               obligation="Taint.chk (C07.tchk_sound) accepts the tree of the real compiler"), "user supplied" in a["why"])
    # (c) execution: inputs unmodified, names, original coordinates
    c02.check_records(ctx, [r for r in recs if r["ok"] and r["execs"]], need_reference=False)


def replay(ctx, path):
    print("replay: re-run `./check C07`; the replay file carries the specification"); return 2
