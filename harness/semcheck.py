"""Shared verdict logic of the checks that execute emitted programs (C02-C05, C07, C11, C16)."""
import random
import common, specs, gens


def outputs_of(ex):
    return {k: sorted((tuple(p), v) for p, v in pts) for k, pts in ex.get("outputs", {}).items()}


def oracle_of(case, ex):
    inputs = {k: {tuple(p): v for p, v in x} for k, x in ex["inputs"].items()}
    return {k: sorted(v.items()) for k, v in gens.oracle_cascade(case, inputs).items()}


def verdict(case, ex):
    """(ok, reason, signature) for one execution of one program"""
    if "harness_error" in ex:
        raise common.InternalError(ex["harness_error"])
    if not ex["ok"]:
        return False, "the emitted program raises " + str(ex["err"]), "raises-" + str(ex.get("err_type"))
    if ex["problems"]:
        return False, "; ".join(ex["problems"]), "names-or-inputs"
    if ex["cmp"]:
        # are all differences elements outside the declared extent (the in-extent part being right)?
        want = oracle_of(case, ex)
        got = outputs_of(ex)
        inrange_ok = True
        for n, w in want.items():
            exts = gens.tensor_ext(case, n)
            g = [(p, v) for p, v in got.get(n, []) if all(0 <= c < x for c, x in zip(p, exts))]
            if g != w:
                inrange_ok = False
        sig = "out-of-extent-only" if inrange_ok else "wrong-values"
        return False, "; ".join(ex["cmp"]), sig
    return True, None, None


def base_replay(r, case, ex):
    return dict(yaml=r["yaml"], yaml_text=specs.dump_yaml(r["yaml"]), mode=r["mode"], hashseed=r["hashseed"], text=r["text"], extents=case["ext"], env=case["env"],
                inputs=ex["inputs"], outputs=ex.get("outputs"), oracle={k: [[list(p), v] for p, v in x] for k, x in oracle_of(case, ex).items()})
