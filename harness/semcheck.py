"""Shared verdict logic of the checks that execute emitted programs (C02-C05, C07, C11, C16)."""
import random
import common, specs, gens


def outputs_of(ex):
    return {k: sorted((tuple(p), v) for p, v in pts) for k, pts in ex.get("outputs", {}).items()}


def oracle_of(case, ex):
    inputs = {k: {tuple(p): v for p, v in x} for k, x in ex["inputs"].items()}
    return {k: sorted(v.items()) for k, v in gens.oracle_cascade(case, inputs).items()}


def verdict(case, ex):
    """(ok, reason, signature) for one execution of one program"""
    if "harness_error" in ex:
        raise common.InternalError(ex["harness_error"])
    if not ex["ok"]:
        return False, "the emitted program raises " + str(ex["err"]), "raises-" + str(ex.get("err_type"))
    if ex["problems"]:
        return False, "; ".join(ex["problems"]), "names-or-inputs"
    if ex["cmp"]:
        sig = "out-of-extent" if any("outside its extent" in c for c in ex["cmp"]) and not any("differs" in c for c in ex["cmp"]) else "wrong-values"
        return False, "; ".join(ex["cmp"]), sig
    return True, None, None


def base_replay(r, case, ex):
    return dict(yaml=r["yaml"], yaml_text=specs.dump_yaml(r["yaml"]), mode=r["mode"], hashseed=r["hashseed"], text=r["text"], extents=case["ext"], env=case["env"],
                inputs=ex["inputs"], outputs=ex.get("outputs"), oracle={k: [[list(p), v] for p, v in x] for k, x in oracle_of(case, ex).items()})
