"""C15 — compilation does not mutate its inputs and is repeatable.
Theorems: Props/C15 (frame property of the binding heap: mutations through private copies never reach the
caller's cells; aliasing does - counterexample for the code as found).  Tie: deep structural snapshots of the
parsed Einsum/Mapping/Architecture/Bindings/Format objects before and after HiFiber(...); a second
compilation from the same objects; texts after unrelated compilations in the same interpreter vs in a fresh
one; a scan of module- and class-level state of every teaal module."""
import copy, importlib, json, os, pkgutil, random, subprocess, sys
import common, specs, gens, pool


def snap(o, seen=None, depth=0):
    """structural snapshot (JSON-like) of an arbitrary object graph"""
    if seen is None:
        seen = set()
    if o is None or isinstance(o, (bool, int, float, str)):
        return o if not isinstance(o, str) else str(o)
    if id(o) in seen or depth > 60:
        return "<cycle>"
    seen = seen | {id(o)}
    if isinstance(o, dict):
        return {"__dict__": [[snap(k, seen, depth + 1), snap(v, seen, depth + 1)] for k, v in o.items()]}
    if isinstance(o, (list, tuple)):
        return {"__%s__" % type(o).__name__: [snap(x, seen, depth + 1) for x in o]}
    if isinstance(o, (set, frozenset)):
        return {"__set__": sorted(json.dumps(snap(x, seen, depth + 1), sort_keys=True, default=str) for x in o)}
    if type(o).__name__ == "Tree" and hasattr(o, "children"):
        return {"__tree__": [str(o.data), [snap(c, seen, depth + 1) for c in o.children]]}
    if hasattr(o, "__dict__"):
        return {"__obj__": type(o).__name__, "vars": {k: snap(v, seen, depth + 1) for k, v in vars(o).items()}}
    return repr(o)


def first_diff(a, b, path=""):
    if type(a) != type(b):
        return "%s: %r vs %r" % (path, a, b)
    if isinstance(a, dict):
        for k in list(a.keys()) + [k for k in b.keys() if k not in a]:
            if k not in a or k not in b:
                return "%s/%s: present on one side only (%r)" % (path, k, (a.get(k), b.get(k)))
            d = first_diff(a[k], b[k], path + "/" + str(k))
            if d:
                return d
        return None
    if isinstance(a, list):
        if len(a) != len(b):
            return "%s: length %d vs %d; extra %r" % (path, len(a), len(b), (a[len(b):] or b[len(a):])[:2])
        for i, (x, y) in enumerate(zip(a, b)):
            d = first_diff(x, y, "%s[%d]" % (path, i))
            if d:
                return d
        return None
    if isinstance(a, float) and a != a and b != b:
        return None                     # NaN is NaN
    return None if a == b else "%s: %r vs %r" % (path, a, b)


def module_state():
    """module- and class-level attributes of every teaal module (state cached outside the parsed objects)"""
    import teaal
    out = {}
    for m in list(sys.modules):
        if m == "teaal" or m.startswith("teaal."):
            mod = sys.modules[m]
            for k, v in vars(mod).items():
                if k.startswith("__") or callable(v) and not isinstance(v, type) or type(v).__name__ == "module":
                    continue
                if isinstance(v, type):
                    if getattr(v, "__module__", "").startswith("teaal"):
                        for ck, cv in vars(v).items():
                            if ck.startswith("__") or callable(cv) or isinstance(cv, (staticmethod, classmethod, property)) or type(cv).__name__ in ("Lark", "_abc_data", "member_descriptor", "getset_descriptor"):
                                continue
                            out["%s.%s.%s" % (m, k, ck)] = snap(cv)
                elif isinstance(v, (dict, list, set, int, str, float, tuple)):
                    out["%s.%s" % (m, k)] = snap(v)
    return out


def container_ids(o, acc=None, depth=0):
    """ids of all mutable containers reachable from o"""
    if acc is None:
        acc = set()
    if isinstance(o, (dict, list, set)):
        if id(o) in acc or depth > 40:
            return acc
        acc.add(id(o))
        for x in (list(o.values()) if isinstance(o, dict) else list(o)):
            container_ids(x, acc, depth + 1)
    elif hasattr(o, "__dict__") and not isinstance(o, type) and type(o).__module__.startswith("teaal"):
        if id(o) in acc or depth > 40:
            return acc
        acc.add(id(o))
        for v in vars(o).values():
            container_ids(v, acc, depth + 1)
    return acc


def aliasing(hf, bindings_obj):
    """premise of C15.pure on the implementation: no container held by a component is a cell of the caller's Bindings"""
    owned = container_ids(bindings_obj)
    owned.discard(id(bindings_obj))
    bad = []
    hw = getattr(hf, "hardware", None)
    if hw is None:
        return bad
    for name, comp in hw.components.items():
        for attr in ("bindings", "tensor_bindings"):
            held = container_ids(getattr(comp, attr, None))
            if held & owned:
                bad.append("%s.%s" % (name, attr))
    return bad


def one_case(ctx, name, d, mode, others):
    from teaal.trans.hifiber import HiFiber
    try:
        objs = specs.build_objects(d, mode)
    except ValueError:
        ctx.stat("rejected_ValueError"); return
    except Exception as e:
        ctx.stat("parse_crash_" + type(e).__name__); return
    before = [snap(o) for o in objs]
    ms0 = module_state()
    try:
        hf1 = HiFiber(*objs)
        t1 = str(hf1)
    except ValueError:
        ctx.stat("rejected_ValueError"); return
    except Exception as e:
        ctx.stat("compile_crash_" + type(e).__name__); return
    ctx.case([name, mode, d], nontrivial=True)
    ctx.stat("mode_" + mode)
    after = [snap(o) for o in objs]
    labels = ["Einsum", "Mapping", "Architecture", "Bindings", "Format"]
    for lab, a, b in zip(labels, before, after):
        df = first_diff(a, b)
        ctx.ob(df is None)
        if df is not None:
            case = {"predicates": set(), "signature": None}
            ctx.violation(dict(kind="input-mutated", spec=name, yaml=d, mode=mode, object=lab, difference=df,
                               reason="constructing the translator changed the caller's %s object: %s" % (lab, df[:300])), True)
    if mode == "metrics":
        al = aliasing(hf1, objs[3])
        ctx.ob(not al); ctx.stat("aliasing_scans")
        if al and all(first_diff(a, b) is None for a, b in zip(before, after)):
            ctx.violation(dict(kind="aliasing", spec=name, yaml=d, mode=mode, components=al,
                               obligation="premise of C15.pure: component handles are fresh (not cells of the caller's Bindings)",
                               reason="components %r hold containers of the caller's Bindings object by reference" % al), False)
    # module / class level state
    ms1 = module_state()
    df = first_diff(ms0, ms1)
    ctx.ob(df is None)
    if df is not None:
        ctx.violation(dict(kind="module-state", spec=name, yaml=d, mode=mode, difference=df,
                           reason="compilation changed module/class-level state of the compiler: %s" % df[:300]), True)
    # second compilation from the same objects
    try:
        t2 = str(HiFiber(*objs))
        ok = t2 == t1
        why = None if ok else "second compilation from the same objects yields a different program"
    except Exception as e:
        ok, t2, why = False, None, "second compilation from the same objects raises %s: %s" % (type(e).__name__, str(e)[:200])
    ctx.ob(ok)
    if not ok:
        ctx.violation(dict(kind="not-repeatable", spec=name, yaml=d, mode=mode, first=t1, second=t2, reason=why), True)
    # history independence inside this interpreter: compile unrelated specifications, then this one from fresh objects
    for od, om in others:
        try:
            str(HiFiber(*specs.build_objects(od, om)))
        except Exception:
            pass
    try:
        t3 = str(HiFiber(*specs.build_objects(d, mode)))
    except Exception as e:
        t3 = "%s: %s" % (type(e).__name__, e)
    ctx.ob(t3 == t1)
    if t3 != t1:
        ctx.violation(dict(kind="history-dependent", spec=name, yaml=d, mode=mode, first=t1, after_history=t3,
                           history=[o[0]["einsum"]["expressions"] for o in others],
                           reason="the text emitted for the specification depends on what was compiled before it in the same process"), True)
    return t1


def text_route(d, mode, header=""):
    """the user's route: every object parsed from YAML TEXT (Einsum.from_str ...), so the YAML reader is part of the history"""
    from teaal.parse import Einsum, Mapping, Architecture, Bindings, Format
    from teaal.trans.hifiber import HiFiber
    d = copy.deepcopy(d)
    if not d.get("mapping"):
        d["mapping"] = {}
    if mode == "plain":
        d = specs.strip(d, "spacetime")
    text = header + specs.dump_yaml(d)
    objs = [Einsum.from_str(text), Mapping.from_str(text)]
    if mode == "metrics":
        objs += [Architecture.from_str(text), Bindings.from_str(text), Format.from_str(text)]
    return str(HiFiber(*objs))


def text_histories(ctx, cases, rng, n):
    """history independence on the text route: a specification compiled from its YAML text, then again after other documents were
    read in the same interpreter - some of them carrying a `%YAML 1.1` / `%YAML 1.2` directive (legal YAML; a reader that is kept
    between documents may carry the directive over to the next document)"""
    done = 0
    for name, d, mode in rng.sample(cases, min(len(cases), 3 * n)):
        if done >= n:
            break
        try:
            t1 = text_route(d, mode)
        except Exception:
            continue
        done += 1
        for od, om in [(c[1], c[2]) for c in rng.sample(cases, 2)]:
            try:
                text_route(od, om, header=rng.choice(["%YAML 1.1\n---\n", "%YAML 1.1\n---\n", "%YAML 1.2\n---\n", ""]))
            except Exception:
                pass
        try:
            t2 = text_route(d, mode)
        except Exception as e:
            t2 = "%s: %s" % (type(e).__name__, e)
        ctx.ob(t1 == t2); ctx.stat("text_route_histories")
        if t1 != t2:
            ctx.violation(dict(kind="history-dependent", spec=name, yaml=d, mode=mode, first=t1, after_history=t2, route="text",
                               reason="the text emitted for the specification (parsed from YAML text) depends on which documents were read before it in the same process"), True)
        # a directive of its own must not change a document without YAML-1.1-only scalars either way; restore a neutral reader state
        try:
            text_route(d, mode, header="%YAML 1.2\n---\n")
        except Exception:
            pass


def fresh_process_text(d, mode, hashseed):
    code = ("import sys, json; sys.path.insert(0, %r); import common, specs; d = json.load(sys.stdin); "
            "c = specs.compile_spec(d, %r); print(json.dumps(c.text if c.ok else None))" % (os.path.dirname(os.path.abspath(__file__)), mode))
    env = dict(os.environ); env["PYTHONHASHSEED"] = str(hashseed)
    p = subprocess.run([sys.executable, "-c", code], input=json.dumps(d), capture_output=True, text=True, env=env, timeout=300)
    if p.returncode != 0:
        raise common.InternalError("fresh process failed: " + p.stderr[-500:])
    return json.loads(p.stdout)


def run(ctx):
    ctx.rule = ("corpus specifications in every mode, generated G1-G5 (plain/spacetime) and G7 (metrics) specifications; each: snapshot/compile/snapshot, second compile from the "
                "same objects, compile after 2-3 unrelated compilations, module-state scan; a sample is also compiled in a fresh interpreter with the same hash seed; "
                "non-trivial = every successfully compiled case; distinct = distinct (specification, mode)")
    ctx.trusted = ["Lean kernel; Props/C15 (heap frame property)", "snapshots are structural walks over vars() of the parsed objects (harness)",
                   "the heap model's correspondence with Hardware/Component construction is observed through the snapshots (sampled)"]
    rng = random.Random(ctx.seed * 7 + 15)
    k = 1 if ctx.tier == "quick" else 6
    cases = []
    for name, d in specs.corpus():
        for mode in specs.modes_of(d):
            cases.append((name, d, mode))
    for g, n, modes in (("g1", 8 * k, ["plain"]), ("g2", 10 * k, ["plain"]), ("g3", 8 * k, ["plain"]), ("g4", 8 * k, ["plain"]), ("g5", 8 * k, ["plain"])):
        for i in range(n):
            case = getattr(gens, g)(rng)
            cases.append(("%s#%d" % (g, i), gens.to_yaml_dict(case), "plain"))
    try:
        import gens7
        for i in range(40 * k):
            cases.append(("g7#%d" % i, gens.to_yaml_dict(gens7.g7(rng)), "metrics"))
    except ImportError:
        pass
    # specifications in which configurations SHARE objects (YAML anchors; `_alias` paths, see specs.build_objects)
    import c14
    for i in range(10 * k):
        cases.append(("g14a#%d" % i, c14.gen_anchor(rng)[0], "metrics"))
    texts = []
    for name, d, mode in cases:
        others = [(c[1], c[2]) for c in rng.sample(cases, 2)]
        t = one_case(ctx, name, d, mode, others)
        if t is not None:
            texts.append((name, d, mode, t))
            if len(ctx.samples) < 3 and mode == "metrics":
                ctx.sample({"spec": name, "mode": mode, "einsum": d["einsum"]["expressions"]})
    text_histories(ctx, cases, rng, 25 * k)
    # fresh interpreter, same hash seed
    hs = os.environ.get("PYTHONHASHSEED", "0")
    for name, d, mode, t in rng.sample(texts, min(len(texts), 6 * k)):
        t4 = fresh_process_text(d, mode, hs)
        ctx.ob(t4 == t); ctx.stat("fresh_process_compared")
        if t4 != t:
            ctx.violation(dict(kind="history-dependent", spec=name, yaml=d, mode=mode, first=t, fresh_process=t4,
                               reason="the text differs from the one a fresh interpreter (same hash seed) emits"), True)


def replay(ctx, path):
    rep = json.load(open(path))
    one_case(ctx, rep.get("spec", "replay"), rep["yaml"], rep["mode"], [])
    return ctx.finish()
