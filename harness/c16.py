"""C16 — spacetime display is observation-only, complete and unambiguous.
Theorems: Props/C16 (stamps_injective, perm_injective, rel_coord_injective, slip_unique).  Tie (G6: every split of
the loop ranks into space and time, position / coordinate / bare styles, slip on and off, over G1-G3
specifications): the spacetime program is executed: same tensors as the Einsum defines (and as the plain
compile); exactly one addActivity per executed update; every displayed tensor gets a point with one coordinate
per rank naming an element of the tensor as displayed; when each rank's levels are looped outermost to
innermost (every loop rank is stamped by construction) no two activities carry the same (space, time) stamp."""
import json, random
import common, pool, specs, gens, c02, c04, c06, semcheck


def level_sorted(d):
    for out, lo in ((d.get("mapping") or {}).get("loop-order") or {}).items():
        seen = {}
        for r in lo:
            root = gens.root_of(r)
            lvl = int(r[len(root):] or 0)
            if root in seen and seen[root] < lvl:
                return False
            seen[root] = lvl
    return True


def run(ctx):
    ctx.rule = ("G1-G4 specifications with a generated spacetime mapping (every split of the loop ranks into space/time, styles bare/.pos/.coord, slip on/off), executed on 2 random "
                "inputs under several hash seeds; non-trivial = program with at least one loop and one activity; distinct = distinct text")
    ctx.trusted = ["Lean kernel; Props/C16 (stamp algebra)", "that the emitted stamp components are the coordinate / position / relative coordinate of each loop is read off the emitted text by "
                   "execution (sampled), not derived from a model of Canvas", "minifiber's recorder of createCanvas/addActivity calls"]
    ctx.assumptions = ["coordinate-style stamps on flattened ranks are excluded (known finding of C06: the stamp reads an unbound name)"]
    k = 1 if ctx.tier == "quick" else 8
    recs = pool.collect(ctx, [dict(gen="g1", count=40 * k, modes=["spacetime"], nexec=2, reference=True, opts={"allow_take": False}),
                              dict(gen="g2", count=40 * k, modes=["spacetime"], nexec=2, reference=True, opts={"order": "levelsorted"}),
                              dict(gen="g2", count=15 * k, modes=["spacetime"], nexec=2, reference=True, opts={"order": "perm"}),
                              dict(gen="g3", count=50 * k, modes=["spacetime"], nexec=2, reference=True),
                              dict(gen="g3x", count=30 * k, modes=["spacetime"], nexec=2, reference=True),
                              dict(gen="g4", count=(150 if k == 1 else 560), modes=["spacetime"], nexec=2, reference=True)])
    keep = []
    for r in recs:
        if r["ok"] and c06.flattened_stamp_vars(r["yaml"]):
            ctx.stat("excluded_coord_stamp_on_flattened_rank"); continue
        keep.append(r)
    ctx.findings = ctx.findings + common.load_findings("C04")      # convolutions outside C04's claimed class stay C04's findings
    c02.check_records(ctx, keep, classify=lambda case, r: c04.classify(case, r) if "conv" in case["tags"] else set())      # observation-only: same tensors as the oracle and as the unmapped compile
    # the loops of the SPACETIME-mode program against the Lean model compilers (C01/C02 theorems; C03 for occupancy/flatten): the
    # enumerate() wrappers and canvas statements are read through, so the displayed program is shown to compute the Einsum for all inputs
    c02.check_model(ctx, [r for r in keep if r["ok"]], only_model_class=True)
    c04.check_model(ctx, [r for r in keep if r["ok"] and r["gen"] == "g4"])
    import c03
    c03.check_model(ctx, [r for r in keep if r["ok"] and r["gen"].startswith("g3") and not c02.in_model_class(r["case"])])
    # one activity per executed update, for EVERY input: the shape of the real spacetime tree is balanced (C16.one_activity_per_update)
    okr = [r for r in keep if r["ok"]]
    for r, a in zip(okr, common.lean_batch([{"op": "activity_balance", "tree": r["tree"]} for r in okr])):
        if "error" in a:
            raise common.InternalError("lean: " + a["error"])
        n = len(r["yaml"]["einsum"]["expressions"])
        good = a["balanced"] and a["update_statements"] >= n and a["activity_statements"] >= n
        ctx.ob(good); ctx.stat("activity_balance_checked")
        if not good:
            failing = [ex for ex in r["execs"] if ex.get("ok") and ex.get("activities") != ex.get("updates")]
            ctx.violation(dict(kind="activity-balance", yaml=r["yaml"], yaml_text=specs.dump_yaml(r["yaml"]), text=r["text"], lean=a,
                               obligation="C16.one_activity_per_update: the emitted tree is balanced (every loop body and path reports as many activities as it performs updates)",
                               reason="the spacetime program is not balanced: bal=%r, %d update / %d addActivity statements" % (a["bal"], a["update_statements"], a["activity_statements"])),
                          bool(failing))
    # observation-only at the level of the tensor OBJECTS of the spacetime-mode program: rank ids / aliasing (C07.chk_sound) and the
    # origin of every in-place update (C07.tchk_sound) - the display code neither renames nor modifies a user input, in any execution
    import c07
    objr = [r for r in okr if "user" in r]
    oreqs = [{"op": op, "tree": r["tree"], "inputs": c07.input_vars(r)} for r in objr for op in ("rankheap", "taint_check")]
    oans = common.lean_batch(oreqs)
    for i, r in enumerate(objr):
        for a, what in ((oans[2 * i], "rank ids / aliasing"), (oans[2 * i + 1], "origin of in-place updates")):
            if "error" in a:
                raise common.InternalError("lean: " + a["error"])
            ctx.ob(a["ok"]); ctx.stat("spacetime_tree_object_checks")
            if not a["ok"]:
                ctx.violation(dict(kind="spacetime-objects", yaml=r["yaml"], yaml_text=specs.dump_yaml(r["yaml"]), text=r["text"], reason="%s: %s" % (what, a["why"]),
                                   obligation="RankHeap.chk / Taint.chk (C07.chk_sound, C07.tchk_sound) accept the spacetime-mode tree"), False)
    for r in keep:
        if not r["ok"]:
            continue
        sorted_levels = level_sorted(r["yaml"])
        for ex in r["execs"]:
            if not ex.get("ok"):
                continue
            one = ex.get("activities") == ex.get("updates")
            pts = not ex.get("act_problems")
            uniq = ex.get("dup_stamps", 0) == 0 or not sorted_levels
            ctx.ob(one); ctx.ob(pts); ctx.ob(uniq)
            ctx.stat("activities", ex.get("activities", 0))
            if sorted_levels:
                ctx.stat("stamp_uniqueness_checked")
            if len(ctx.samples) < 3 and ex.get("activities", 0) > 3:
                ctx.sample({"einsum": r["yaml"]["einsum"]["expressions"], "spacetime": r["yaml"]["mapping"]["spacetime"], "activities": ex["activities"], "stamps": ex.get("stamp_sample")})
            if one and pts and uniq:
                continue
            reason = []
            if not one:
                reason.append("%d activities reported for %d executed updates" % (ex.get("activities"), ex.get("updates")))
            if not pts:
                reason.append("; ".join(ex["act_problems"][:2]))
            if not uniq:
                reason.append("%d activities share a (space, time) stamp with an earlier one" % ex["dup_stamps"])
            ctx.violation(dict(semcheck.base_replay(r, r["case"], ex), kind="spacetime", reason="; ".join(reason)), True)


def replay(ctx, path):
    print("replay: re-run `./check C16`; the replay file carries the specification and inputs"); return 2
