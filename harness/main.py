"""CLI of the checks: ./check Cxx [--tier quick|thorough] [--replay file].
Exit 0: property held on everything explored; exit 1: VIOLATION line(s) printed; exit 2: internal error/time-out."""
import argparse, importlib, os, sys, traceback
sys.path.insert(0, os.path.dirname(os.path.abspath(__file__)))
import common


def main():
    ap = argparse.ArgumentParser()
    ap.add_argument("prop")
    ap.add_argument("--tier", default=os.environ.get("VERIF_TIER", "quick"), choices=["quick", "thorough"])
    ap.add_argument("--replay", default=None)
    a = ap.parse_args()
    seed = int(os.environ.get("VERIF_SEED", "0") or 0)
    if "PYTHONHASHSEED" not in os.environ:
        # in-process compilations run under a hash seed derived from VERIF_SEED (pool workers use further ones)
        os.environ["PYTHONHASHSEED"] = str((seed * 2654435761 + 17) % 4294967295)
        os.execv(sys.executable, [sys.executable] + sys.argv)
    prop = a.prop.upper()
    try:
        mod = importlib.import_module(prop.lower())
        ctx = common.Ctx(prop, a.tier, seed)
        if a.replay:
            rc = mod.replay(ctx, a.replay)
            sys.exit(rc)
        audit = common.lean_build_and_audit(prop)
        ctx.theorems = audit.get("theorems", [])
        ctx.extra["axioms"] = audit.get("axioms", {})
        ctx.ob(audit["ok"], max(audit["obligations"], 1))
        if a.tier == "thorough" and audit["ok"]:
            ok, msg = common.lean_recheck(prop)
            ctx.ob(ok)
            ctx.extra["leanchecker"] = "accepted TeaalVerif.Props.%s" % prop if ok else msg
            if not ok:
                audit["ok"] = False
                audit["problems"].append("leanchecker rejects TeaalVerif.Props.%s: %s" % (prop, msg))
        ctx.proof_ok = audit["ok"]
        ctx.proof_problems = audit["problems"]
        mod.run(ctx)
        if not audit["ok"] and not ctx.violations:
            # the proof side no longer checks and the search found no failing input
            ctx.violation(dict(kind="proof-obligation", problems=audit["problems"],
                               note="lake build / axiom audit of Props/%s failed; failing-input search over the property's generators found nothing" % prop),
                          found_input=False)
        sys.exit(ctx.finish())
    except SystemExit:
        raise
    except BaseException:
        traceback.print_exc()
        print("INTERNAL-ERROR in check %s (not a verdict)" % prop)
        sys.exit(2)


main()
