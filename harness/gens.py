"""Structured specification generators (G1-G6), the dense oracle and the executor that runs emitted
programs on `minifiber`.  Everything random derives from one `random.Random` handed in by the check.

A *case* is a dict:
  decl        {tensor: [rank, ...]}                        declaration order
  eins        [Ein]                                        structured Einsums (see below), in program order
  mapping     {rank-order|partitioning|loop-order|spacetime: {...}}   exactly what goes into the YAML
  ext         {rank: extent}                               extents of all root ranks
  env         {name: int}                                  symbolic sizes named by the mapping, scalars
  tags        [str]                                        features (for distributions / finding predicates)
Ein = dict(out=name, oidx=[idx], terms=[dict(kind="times"|"take", factors=[("t", name, [idx]) | ("s", name)], sel=int|None)])
idx = [(coef, var), ...]  (an integer-affine index expression without constant)
"""
import copy, itertools, random
import minifiber

# ------------------------------------------------------------------------------------------ rendering

def idx_str(idx):
    parts = []
    for c, v in idx:
        parts.append(v if c == 1 else "%d * %s" % (c, v))
    return " + ".join(parts)


def access_str(name, idxs):
    return "%s[%s]" % (name, ", ".join(idx_str(i) for i in idxs))


def ein_str(e):
    terms = []
    for t in e["terms"]:
        fs = [f[1] if f[0] == "s" else access_str(f[1], f[2]) for f in t["factors"]]
        if t["kind"] == "times":
            terms.append(" * ".join(fs))
        else:
            terms.append("take(%s, %d)" % (", ".join(fs), t["sel"]))
    return "%s = %s" % (access_str(e["out"], e["oidx"]), " + ".join(terms))


def to_yaml_dict(case):
    d = {"einsum": {"declaration": copy.deepcopy(case["decl"]), "expressions": [ein_str(e) for e in case["eins"]]}}
    m = {k: copy.deepcopy(v) for k, v in case.get("mapping", {}).items() if v}
    d["mapping"] = m
    for k in ("architecture", "bindings", "format"):
        if k in case:
            d[k] = copy.deepcopy(case[k])
    return d


def V(r):
    return [(1, r.lower())]


# ------------------------------------------------------------------------------------------ oracle

def ein_vars(e):
    vs = []
    for idx in e["oidx"]:
        for _, v in idx:
            if v not in vs:
                vs.append(v)
    for t in e["terms"]:
        for f in t["factors"]:
            if f[0] == "t":
                for idx in f[2]:
                    for _, v in idx:
                        if v not in vs:
                            vs.append(v)
    return vs


def ev_idx(idx, rho):
    return sum(c * rho[v] for c, v in idx)


def dense_eval(e, tensors, scalars, ext):
    """tensors: {name: {coords (declaration order): value}}; returns the output's points (declaration order of
    the access, i.e. positional).  The iteration space is [0, ext[VAR]) for every index variable."""
    vs = ein_vars(e)
    out = {}
    for point in itertools.product(*[range(ext[v.upper()]) for v in vs]):
        rho = dict(zip(vs, point))
        tot = 0
        for t in e["terms"]:
            vals = []
            for f in t["factors"]:
                if f[0] == "s":
                    vals.append(scalars[f[1]])
                else:
                    vals.append(tensors[f[1]].get(tuple(ev_idx(i, rho) for i in f[2]), 0))
            if t["kind"] == "times":
                v = 1
                for x in vals:
                    v *= x
            else:
                v = vals[t["sel"]] if all(x != 0 for x in vals) else 0
            tot += v
        key = tuple(ev_idx(i, rho) for i in e["oidx"])
        out[key] = out.get(key, 0) + tot
    return {k: v for k, v in out.items() if v != 0}


def oracle_cascade(case, inputs):
    tensors = {k: dict(v) for k, v in inputs.items()}
    scalars = {k: v for k, v in case["env"].items()}
    outs = {}
    for e in case["eins"]:
        res = dense_eval(e, tensors, scalars, case["ext"])
        tensors[e["out"]] = res
        outs[e["out"]] = res
    return outs


# ------------------------------------------------------------------------------------------ inputs

def input_names(case):
    produced, ins = set(), []
    for e in case["eins"]:
        for t in e["terms"]:
            for f in t["factors"]:
                if f[0] == "t" and f[1] not in produced and f[1] not in ins:
                    ins.append(f[1])
        produced.add(e["out"])
    return ins


def tensor_ext(case, name):
    """extent of every declared rank of a tensor"""
    return [case["ext"][r] for r in case["decl"][name]]


def rand_tensor(rng, exts, density=0.5, vals=(-2, -1, 1, 2, 3)):
    pts = {}
    for p in itertools.product(*[range(x) for x in exts]):
        if rng.random() < density:
            pts[p] = rng.choice(vals)
    return pts


def rand_inputs(rng, case, density=None):
    ins = {}
    for n in input_names(case):
        d = density if density is not None else rng.choice([0.2, 0.5, 0.5, 0.8, 1.0])
        ins[n] = rand_tensor(rng, tensor_ext(case, n), d)
    return ins


# ------------------------------------------------------------------------------------------ execution

class ExecResult:
    def __init__(self):
        self.ok = False
        self.err = None           # exception text when the emitted program raised
        self.err_type = None
        self.outputs = {}         # {tensor: points in declaration order}
        self.problems = []        # name/rank-id/input-mutation problems (C07)
        self.rec = None
        self.globals = None


def layout(case, name):
    ro = (case.get("mapping", {}).get("rank-order") or {}).get(name)
    return list(ro) if ro else list(case["decl"][name])


def run_text(text, case, inputs, check_names=True):
    """exec the emitted text on minifiber.  inputs: {name: points in declaration order}."""
    res = ExecResult()
    g = minifiber.base_globals()
    res.rec = minifiber.reset_recorder()
    snap = {}
    for n, pts in inputs.items():
        ro = layout(case, n)
        decl = case["decl"][n]
        perm = [decl.index(r) for r in ro]
        tp = {tuple(k[i] for i in perm): v for k, v in pts.items()}
        var = n + "_" + "".join(ro)
        g[var] = minifiber.Tensor.fromPoints(ro, tp, n)
        snap[var] = (list(ro), dict(g[var].points()))
    g.update(case["ext"])
    g.update(case["env"])
    res.globals = g
    try:
        exec(compile(text, "<emitted>", "exec"), g)
    except Exception as e:   # noqa
        res.err_type = type(e).__name__
        res.err = "%s: %s" % (type(e).__name__, str(e)[:300])
        return res
    res.ok = True
    # inputs untouched
    for var, (ro, pts) in snap.items():
        t = g.get(var)
        if not isinstance(t, minifiber.Tensor) or t.getRankIds() != ro or t.points() != pts:
            res.problems.append("input %s was modified (rank ids %r, %d points before, now %r / %d points)" % (
                var, ro, len(pts), getattr(t, "rank_ids", None), len(t.points()) if isinstance(t, minifiber.Tensor) else -1))
    # results
    for e in case["eins"]:
        n = e["out"]
        ro = layout(case, n)
        var = n + "_" + "".join(ro)
        t = g.get(var)
        if not isinstance(t, minifiber.Tensor):
            res.problems.append("result %s is not bound to a tensor" % var)
            continue
        if t.getRankIds() != ro:
            res.problems.append("result %s has rank ids %r" % (var, t.getRankIds()))
            continue
        decl = case["decl"][n]
        perm = [ro.index(r) for r in decl]
        try:
            res.outputs[n] = {tuple(_plain(k[i]) for i in perm): v for k, v in t.points().items()}
        except Exception as ex:
            res.problems.append("result %s has malformed coordinates: %s" % (var, ex))
    # every <Name>_<Ranks> global holds a tensor whose rank ids spell <Ranks>
    if check_names:
        names = set(case["decl"])
        for k, v in g.items():
            if isinstance(v, minifiber.Tensor) and "_" in k:
                nm, _, rk = k.partition("_")
                if nm in names:
                    spelled = "".join(v.getRankIds())
                    if rk.endswith("_flat"):
                        rk = rk[:-5]
                    if spelled != rk:
                        res.problems.append("variable %s holds a tensor with rank ids %r" % (k, v.getRankIds()))
    return res


def _plain(c):
    if isinstance(c, float):
        if c != int(c):
            raise ValueError("fractional coordinate %r" % (c,))
        return int(c)
    if isinstance(c, tuple):
        raise ValueError("tuple coordinate %r in a result" % (c,))
    return c


def compare(case, res, inputs, check_extent=True):
    """returns list of problems: outputs vs oracle, coordinates within extents"""
    probs = []
    want = oracle_cascade(case, inputs)
    for n, w in want.items():
        got = res.outputs.get(n)
        if got is None:
            continue
        if got != w:
            miss = {k: v for k, v in w.items() if got.get(k) != v}
            extra = {k: v for k, v in got.items() if k not in w}
            probs.append("tensor %s differs from the Einsum: expected-but-different %r, unexpected %r" % (
                n, dict(list(miss.items())[:4]), dict(list(extra.items())[:4])))
        if check_extent:
            exts = tensor_ext(case, n)
            for k in got:
                if any(not (0 <= c < x) for c, x in zip(k, exts)):
                    probs.append("tensor %s has an element at %r outside its extent %r" % (n, k, exts))
                    break
    return probs


# ------------------------------------------------------------------------------------------ G1: plain

RANK_POOLS = [["K", "J", "I", "M", "N", "P"], ["K", "J", "H", "M", "N", "P"], ["I", "PI", "K", "M", "N", "J"],
              ["X", "Y", "R", "U", "V", "W"], ["K", "KI", "J", "M", "MI", "N"], ["M1", "M0", "M2", "K1", "K2", "J"], ["M1", "M0", "M2", "M3", "M4", "M5"]]
TNAMES = list("ABCDEFGHQRSTUVWXY")


def gen_plain(rng, allow_take=True, max_terms=3, product_only=False, min_ranks=0, names=None, out_name="Z"):
    pool = rng.choice(RANK_POOLS)
    nout = rng.randint(0, 2)
    ncon = rng.randint(0, 2)
    while nout + ncon < min_ranks:
        if rng.random() < 0.5:
            nout += 1
        else:
            ncon += 1
    ranks = rng.sample(pool, nout + ncon)
    oranks, cranks = ranks[:nout], ranks[nout:]
    allr = oranks + cranks
    nterms = 1 if product_only else rng.choice([1, 1, 1, 2, 2, 3][:max(1, 2 * max_terms)])
    names = list(names or [n for n in TNAMES if n != out_name])
    rng.shuffle(names)
    decl, terms, tags = {}, [], []
    for _ in range(nterms):
        kind = "take" if (allow_take and rng.random() < 0.25) else "times"
        nf = rng.randint(1, 3)
        tens = [set(rng.sample(allr, rng.randint(0, len(allr)))) for _ in range(nf)]
        missing = set(allr) - set().union(*tens)
        for r in missing:
            rng.choice(tens).add(r)
        factors = []
        for s in tens:
            n = names.pop()
            rs = [r for r in allr if r in s]
            rng.shuffle(rs)
            decl[n] = rs
            factors.append(("t", n, [V(r) for r in rs]))
        sel = None
        if kind == "take":
            sel = rng.randrange(len(factors))
            tags.append("take%d" % len(factors))
            if any(len(f[2]) == 0 for f in factors):
                tags.append("take_rank0_operand")
            if rng.random() < 0.35:
                # a scalar operand inside take(): it only scales the result when it is the selected operand
                pos = rng.randint(0, len(factors))
                factors.insert(pos, ("s", rng.choice(["a", "b"])))
                if rng.random() < 0.3:
                    sel = pos
                elif pos <= sel:
                    sel += 1
                tags.append("take_scalar")
        elif rng.random() < 0.4:
            for _ in range(rng.choice([1, 1, 2])):
                factors.insert(rng.randint(0, len(factors)), ("s", rng.choice(["a", "b"])))
            tags.append("scalar")
        if any(f[0] == "t" and not f[2] for f in factors):
            tags.append("rank0_tensor")
        terms.append(dict(kind=kind, factors=factors, sel=sel))
    if nterms > 1:
        tags.append("sum%d" % nterms)
        if any(t["kind"] == "take" and len(t["factors"]) >= 2 for t in terms):
            tags.append("take_in_multi_term_sum")
    oro = list(oranks)
    rng.shuffle(oro)
    decl[out_name] = oro
    e = dict(out=out_name, oidx=[V(r) for r in oro], terms=terms)
    if not oro:
        tags.append("rank0_output")
    if cranks:
        tags.append("reduction")
    return dict(decl=decl, eins=[e], mapping={}, ext={}, env={"a": 3, "b": -2}, tags=tags), allr


def rename_tensors(rng, case):
    """give some tensors multi-character names, one of them containing another tensor's name (AB next to A, T1 next to T): tensor
    names are user-chosen identifiers, nothing may depend on their spelling.  Applies to plain / spacetime cases (no bindings)."""
    import re
    if any(k in case for k in ("architecture", "bindings", "format")):
        return case
    names = list(case["decl"])
    if len(names) < 2:
        return case
    ren = {}
    a, b = rng.sample(names, 2)
    style = rng.choice(["suffix", "suffix", "digit", "double"])
    if style == "suffix":
        ren[b] = a + rng.choice("BCXY")
    elif style == "digit":
        ren[b] = a + rng.choice("12")
    else:
        ren[a] = a + a
        ren[b] = a
        if len(names) > 2:
            c = rng.choice([x for x in names if x not in (a, b)])
            ren[c] = c + "Q"
    # keep names distinct (case-insensitively: variables are lower-cased) and away from scalar / rank names
    final = [ren.get(x, x) for x in names]
    taken = {x.lower() for x in final}
    ranks = {r for rs in case["decl"].values() for r in rs}
    if len(taken) != len(final) or any(x in ranks or x.lower() in case.get("env", {}) for x in final):
        return case
    c2 = copy.deepcopy(case)
    R = lambda x: ren.get(x, x)
    c2["decl"] = {R(k): v for k, v in case["decl"].items()}
    for e in c2["eins"]:
        e["out"] = R(e["out"])
        for t in e["terms"]:
            t["factors"] = [((f[0], R(f[1]), f[2]) if f[0] == "t" else f) for f in t["factors"]]
    m = c2.get("mapping") or {}
    for sec in ("rank-order", "loop-order", "spacetime", "partitioning"):
        if sec in m and m[sec]:
            m[sec] = {R(k): v for k, v in m[sec].items()}
    for out, parts in (m.get("partitioning") or {}).items():
        for key, stack in parts.items():
            parts[key] = [re.sub(r"uniform_occupancy\((\w+)\.", lambda mm: "uniform_occupancy(%s." % R(mm.group(1)), x) for x in stack]
    c2["tags"] = list(case["tags"]) + ["renamed_tensors"]
    return c2


def add_rank_orders(rng, case, p=0.5):
    ro = {}
    for t in case["decl"]:
        if rng.random() < p and len(case["decl"][t]) > 1:
            x = list(case["decl"][t])
            rng.shuffle(x)
            ro[t] = x
    if ro:
        case["mapping"]["rank-order"] = ro
        case["tags"].append("rank-order")


def g1(rng, **kw):
    case, allr = gen_plain(rng, **kw)
    case["ext"] = {r: rng.randint(1, 4) for r in allr}
    add_rank_orders(rng, case)
    if rng.random() < 0.75 and allr:
        lo = list(allr)
        rng.shuffle(lo)
        case["mapping"]["loop-order"] = {case["eins"][0]["out"]: lo}
        case["tags"].append("loop-order")
    return case


# ------------------------------------------------------------------------------------------ G2: shape partitioning

def level_names(r, n):
    return [r + str(j) for j in range(n, -1, -1)]


def g2(rng, order="perm", symbolic=True):
    while True:
        case, allr = gen_plain(rng, allow_take=False, min_ranks=1)
        if allr:
            break
    case["ext"] = {r: rng.randint(1, 7) for r in allr}
    parts, expanded = {}, []
    for r in allr:
        if rng.random() < 0.55:
            nl = rng.choice([1, 1, 2, 3])
            sizes = sorted([rng.randint(1, 8) for _ in range(nl)], reverse=True)
            stack = []
            for i in range(nl):
                kind = rng.choice(["uniform_shape", "uniform_shape", "nway_shape"])
                if kind == "uniform_shape":
                    if symbolic and rng.random() < 0.25:
                        nm = "%s%dsz" % (r, i)
                        case["env"][nm] = sizes[i]
                        stack.append("uniform_shape(%s)" % nm)
                        case["tags"].append("symbolic_size")
                    else:
                        stack.append("uniform_shape(%d)" % sizes[i])
                else:
                    stack.append("nway_shape(%d)" % rng.randint(1, 4))
                    case["tags"].append("nway")
            parts[r] = stack
            expanded += level_names(r, nl)
            case["tags"].append("levels%d" % nl)
        else:
            expanded.append(r)
    out = case["eins"][0]["out"]
    if parts:
        case["mapping"]["partitioning"] = {out: parts}
    if order == "perm":
        lo = list(expanded)
        rng.shuffle(lo)
        case["mapping"]["loop-order"] = {out: lo}
    elif order == "levelsorted":
        case["mapping"]["loop-order"] = {out: level_sorted(rng, expanded)}
    add_rank_orders(rng, case, 0.3)
    return case


def g2deep(rng, order=None):
    """one rank with 10-12 shape levels (two-digit level names K10, K11: string order != level order)"""
    while True:
        case, allr = gen_plain(rng, allow_take=False, min_ranks=1, max_terms=1)
        if allr:
            break
    case["ext"] = {r: rng.randint(1, 7) for r in allr}
    r = rng.choice(allr)
    nl = rng.randint(10, 12)
    case["ext"][r] = rng.randint(1, 40)
    stack = ["uniform_shape(%d)" % (2 ** (nl - i)) for i in range(nl)]
    expanded = []
    for x in allr:
        expanded += level_names(x, nl) if x == r else [x]
    out = case["eins"][0]["out"]
    case["mapping"]["partitioning"] = {out: {r: stack}}
    order = order or rng.choice(["none", "none", "levelsorted", "perm"])
    if order == "perm":
        lo = list(expanded)
        rng.shuffle(lo)
        case["mapping"]["loop-order"] = {out: lo}
    elif order == "levelsorted":
        case["mapping"]["loop-order"] = {out: level_sorted(rng, expanded)}
    case["tags"] += ["levels%d" % nl, "deep"]
    return case


def root_of(x):
    return x.rstrip("0123456789")


def level_sorted(rng, expanded):
    lo = list(expanded)
    rng.shuffle(lo)
    byroot = {}
    for x in lo:
        byroot.setdefault(root_of(x), []).append(x)
    for root in byroot:
        byroot[root].sort(key=lambda x: -int(x[len(root):] or 0))
    idx = {root: 0 for root in byroot}
    out = []
    for x in lo:
        root = root_of(x)
        out.append(byroot[root][idx[root]])
        idx[root] += 1
    return out


# ------------------------------------------------------------------------------------------ G3: occupancy / flattening

def g3x(rng):
    """three-rank product with occupancy on one operand's rank, a shape split and a flatten chain on the other's"""
    K, M, N, P = rng.choice([("K", "M", "N", "P"), ("J", "I", "H", "R")])
    k, m, n, p = K.lower(), M.lower(), N.lower(), P.lower()
    fa = ("t", "A", [V(K), V(N), V(P)])
    fb = ("t", "B", [V(K), V(M)])
    fs = [fa, fb] if rng.random() < 0.5 else [fb, fa]
    decl = {"Z": [M, N, P], "A": [K, N, P], "B": [K, M]}
    e = dict(out="Z", oidx=[V(M), V(N), V(P)], terms=[dict(kind="times", factors=fs, sel=None)])
    sh = rng.randint(2, 6)
    parts = {M: ["uniform_occupancy(B.%d)" % rng.randint(1, 4)], N: ["uniform_shape(%d)" % sh], "(%s0, %s)" % (N, P): ["flatten()"]}
    flat = N + "0" + P
    loop = rng.choice([[M + "1", N + "1", K, M + "0", flat], [N + "1", M + "1", K, M + "0", flat], [M + "1", N + "1", M + "0", K, flat], [N + "1", K, M + "1", M + "0", flat]])
    case = dict(decl=decl, eins=[e], mapping={"partitioning": {"Z": parts}, "loop-order": {"Z": loop}},
                ext={K: rng.randint(1, 4), M: rng.randint(1, 5), N: rng.randint(1, 7), P: rng.randint(1, 3)}, env={}, tags=["g3x"])
    return case


def g3y(rng):
    """a tensor flattened twice, the second flatten using a level produced by a static split"""
    M, N, K, J = rng.choice([("M", "N", "K", "J"), ("I", "P", "H", "R")])
    decl = {"A": [M, N, K, J], "B": [K, J], "Z": [M, N]}
    e = dict(out="Z", oidx=[V(M), V(N)], terms=[dict(kind="times", factors=[("t", "A", [V(M), V(N), V(K), V(J)]), ("t", "B", [V(K), V(J)])], sel=None)])
    parts = {"(%s, %s)" % (M, N): ["flatten()"], K: ["uniform_shape(%d)" % rng.randint(1, 5)], "(%s0, %s)" % (K, J): ["flatten()"]}
    loop = [M + N, K + "1", K + "0" + J]
    if rng.random() < 0.5:
        loop = [K + "1", M + N, K + "0" + J]
    return dict(decl=decl, eins=[e], mapping={"partitioning": {"Z": parts}, "loop-order": {"Z": loop}},
                ext={M: rng.randint(1, 3), N: rng.randint(1, 3), K: rng.randint(1, 6), J: rng.randint(1, 3)}, env={}, tags=["g3y"])


def g3v(rng):
    """two flatten() partitionings on the same tensor whose ranks interleave in its rank order (the order in which the two are
    applied is a set iteration order)"""
    K, J, M, I, N = rng.choice([("K", "J", "M", "I", "N"), ("H", "R", "P", "Q", "S")])
    ra = [K, J, M, I]
    rng.shuffle(ra)
    rb = [K, N, J, I] if rng.random() < 0.6 else [K, J, I]
    rng.shuffle(rb)
    out = [M, N] if N in rb else [M]
    decl = {"A": ra, "B": rb, "Z": out}
    fs = [("t", "A", [V(r) for r in ra]), ("t", "B", [V(r) for r in rb])]
    e = dict(out="Z", oidx=[V(r) for r in out], terms=[dict(kind="times", factors=fs, sel=None)])
    t1 = [M, K] if rng.random() < 0.5 else [K, M]
    t2 = [J, I] if rng.random() < 0.5 else [I, J]
    parts = {"(%s, %s)" % tuple(t1): ["flatten()"], "(%s, %s)" % tuple(t2): ["flatten()"]}
    loop = ["".join(t2)] + ([N] if N in rb else []) + ["".join(t1)]
    rng.shuffle(loop)
    return dict(decl=decl, eins=[e], mapping={"partitioning": {"Z": parts}, "loop-order": {"Z": loop}},
                ext={K: rng.randint(1, 3), J: rng.randint(1, 3), M: rng.randint(1, 3), I: rng.randint(1, 3), N: rng.randint(1, 3)}, env={}, tags=["g3v"])


def g3u(rng):
    """flatten of (M, K0) of one operand; the OTHER operand is looked up by coordinate in a loop that is not the innermost one and
    a later rank of it is split by occupancy (the fetched fiber feeds fromFiber/splitEqual, not a loop)"""
    K, M, N = rng.choice([("K", "M", "N"), ("J", "I", "H")])
    decl = {"A": [K, M], "B": [K, N], "Z": [M, N]}
    fs = [("t", "A", [V(K), V(M)]), ("t", "B", [V(K), V(N)])]
    if rng.random() < 0.5:
        fs.reverse()
    e = dict(out="Z", oidx=[V(M), V(N)], terms=[dict(kind="times", factors=fs, sel=None)])
    parts = {K: ["uniform_shape(%d)" % rng.randint(2, 5)], "(%s, %s0)" % (M, K): ["flatten()"], N: ["uniform_occupancy(B.%d)" % rng.randint(1, 4)]}
    flat = M + K + "0"
    if rng.random() < 0.6:
        parts[flat] = ["uniform_occupancy(A.%d)" % rng.randint(1, 5)]
        loop = [K + "1", flat + "1", flat + "0", N + "1", N + "0"]
    else:
        loop = [K + "1", flat, N + "1", N + "0"]
    return dict(decl=decl, eins=[e], mapping={"partitioning": {"Z": parts}, "loop-order": {"Z": loop}},
                ext={K: rng.randint(1, 7), M: rng.randint(1, 4), N: rng.randint(1, 5)}, env={}, tags=["g3u"])


def g3dd(rng):
    """TWO dynamic flattenings on one tensor that become valid at different loop levels:
    Z[m, n] = A[k, m, j, n] (* optionally B[n]) with K and J split by occupancy, (M, K0) and (N, J0) flattened;
    loop order [K1, MK0, J1, NJ0] or [K1, J1, MK0, NJ0]"""
    K, M, J, N = rng.choice([("K", "M", "J", "N"), ("P", "I", "Q", "H")])
    decl = {"A": [K, M, J, N], "Z": [M, N]}
    fs = [("t", "A", [V(K), V(M), V(J), V(N)])]
    if rng.random() < 0.3:
        decl["B"] = [N]
        fs.insert(rng.randint(0, 1), ("t", "B", [V(N)]))
    e = dict(out="Z", oidx=[V(M), V(N)], terms=[dict(kind="times", factors=fs, sel=None)])
    parts = {K: ["uniform_occupancy(A.%d)" % rng.randint(1, 4)], "(%s, %s0)" % (M, K): ["flatten()"],
             J: ["uniform_occupancy(A.%d)" % rng.randint(1, 4)], "(%s, %s0)" % (N, J): ["flatten()"]}
    loop = rng.choice([[K + "1", M + K + "0", J + "1", N + J + "0"], [K + "1", M + K + "0", J + "1", N + J + "0"], [K + "1", J + "1", M + K + "0", N + J + "0"]])
    return dict(decl=decl, eins=[e], mapping={"partitioning": {"Z": parts}, "loop-order": {"Z": loop}},
                ext={K: rng.randint(1, 4), M: rng.randint(1, 3), J: rng.randint(1, 4), N: rng.randint(1, 3)}, env={}, tags=["g3dd", "loop:" + ",".join(loop)])


def g2casc(rng):
    """two Einsums reading the SAME input tensor, each shape-partitioning the same rank of it into the same number of levels but
    (usually) with different sizes / styles: T[m,n] = A[k,m] * B[k,n];  Z[m,n] = A[k,m] * C[k,n]  (optionally Z reads T)"""
    K, M, N = rng.choice([("K", "M", "N"), ("J", "I", "H")])
    decl = {"A": [K, M], "B": [K, N], "C": [K, N], "T": [M, N], "Z": [M, N]}
    if rng.random() < 0.3:
        decl["A"] = [M, K]
    aidx = [V(r) for r in decl["A"]]
    e1 = dict(out="T", oidx=[V(M), V(N)], terms=[dict(kind="times", factors=[("t", "A", aidx), ("t", "B", [V(K), V(N)])], sel=None)])
    fs2 = [("t", "A", aidx), ("t", "C", [V(K), V(N)])]
    tags = ["g2casc"]
    if rng.random() < 0.3:
        fs2.append(("t", "T", [V(M), V(N)])); tags.append("reads_intermediate")
    rng.shuffle(fs2)
    e2 = dict(out="Z", oidx=[V(M), V(N)], terms=[dict(kind="times", factors=fs2, sel=None)])
    nl = rng.choice([1, 1, 2])
    prank = rng.choice([K, K, M])
    ext = {K: rng.randint(1, 9), M: rng.randint(1, 5), N: rng.randint(1, 4)}

    def stack():
        top = rng.randint(2, 6)
        out = []
        size = top * (rng.randint(1, 3) if nl == 2 else 1)
        for lvl in range(nl):
            if rng.random() < 0.25 and lvl == 0:
                out.append("nway_shape(%d)" % rng.randint(1, 3))
            else:
                out.append("uniform_shape(%d)" % size)
            size = top if lvl == 0 and nl == 2 else size
        if nl == 2:
            # sizes must nest: second level divides the first when both are uniform
            a = rng.randint(1, 3); b = a * rng.randint(1, 3)
            out = ["uniform_shape(%d)" % b, "uniform_shape(%d)" % a]
        return out
    s1, s2 = stack(), stack()
    if rng.random() < 0.2:
        s2 = list(s1); tags.append("same_sizes")
    lv = [prank + str(i) for i in range(nl, -1, -1)]

    def order():
        others = [r for r in (K, M, N) if r != prank]
        lo = list(lv)
        for r in others:
            lo.insert(rng.randint(0, len(lo)), r)
        return lo
    mapping = {"partitioning": {"T": {prank: s1}, "Z": {prank: s2}}, "loop-order": {"T": order(), "Z": order()}}
    return dict(decl=decl, eins=[e1, e2], mapping=mapping, ext=ext, env={}, tags=tags)


def g3ff(rng):
    """two INDEPENDENT static flatten() groups on the same tensors: Z[m,k,n,p] = A[m,k,n,p] * B[m,k,n,p] with (M,K) and (N,P)
    flattened, loop order [MK, NP] or [NP, MK]; the groups may need a re-ordering first (rank orders shuffled within a group)"""
    M, K, N, P = rng.choice([("M", "K", "N", "P"), ("I", "J", "H", "R")])
    ranks = [M, K, N, P]
    decl = {"A": list(ranks), "Z": list(ranks)}
    fs = [("t", "A", [V(r) for r in ranks])]
    if rng.random() < 0.7:
        rb = list(ranks)
        if rng.random() < 0.4:
            rb = [K, M, N, P] if rng.random() < 0.5 else [M, K, P, N]
        decl["B"] = rb
        fs.append(("t", "B", [V(r) for r in rb]))
        rng.shuffle(fs)
    e = dict(out="Z", oidx=[V(r) for r in ranks], terms=[dict(kind="times", factors=fs, sel=None)])
    parts = {"(%s, %s)" % (M, K): ["flatten()"], "(%s, %s)" % (N, P): ["flatten()"]}
    loop = [M + K, N + P]
    if rng.random() < 0.3:
        loop.reverse()
    return dict(decl=decl, eins=[e], mapping={"partitioning": {"Z": parts}, "loop-order": {"Z": loop}},
                ext={r: rng.randint(1, 3) for r in ranks}, env={}, tags=["g3ff", "loop:" + ",".join(loop)])


def g3z(rng):
    """Z[m,n] = A[k,m] * B[k,n]: an output rank split dynamically into >= 3 levels (an intermediate M1I exists) and a
    second, independently partitioned rank after it (and optionally the contracted rank)"""
    K, M, N = rng.choice([("K", "M", "N"), ("J", "I", "P")])
    decl = {"A": [K, M], "B": [K, N], "Z": [M, N]}
    if rng.random() < 0.3:
        decl["Z"] = [N, M]
    e = dict(out="Z", oidx=[V(x) for x in decl["Z"]], terms=[dict(kind="times", factors=[("t", "A", [V(K), V(M)]), ("t", "B", [V(K), V(N)])], sel=None)])
    s0 = rng.randint(1, 3)
    s1 = s0 * rng.randint(1, 3)
    first = rng.choice(["occ", "occ", "shape"])
    parts = {M: [("uniform_occupancy(A.%d)" % s1) if first == "occ" else ("uniform_shape(%d)" % rng.randint(2, 5)), "uniform_occupancy(A.%d)" % s0]}
    second = rng.choice(["shape", "shape", "occ", "occ2", "nway"])
    if second == "shape":
        parts[N] = ["uniform_shape(%d)" % rng.randint(1, 4)]
    elif second == "nway":
        parts[N] = ["nway_shape(%d)" % rng.randint(1, 3)]
    elif second == "occ":
        parts[N] = ["uniform_occupancy(B.%d)" % rng.randint(1, 3)]
    else:
        t0 = rng.randint(1, 2)
        parts[N] = ["uniform_occupancy(B.%d)" % (t0 * rng.randint(1, 3)), "uniform_occupancy(B.%d)" % t0]
    if rng.random() < 0.3:
        parts[K] = ["uniform_shape(%d)" % rng.randint(1, 4)]
    mapping = {"partitioning": {"Z": parts}}
    if rng.random() < 0.5:
        def lv(r):
            n = len(parts.get(r, []))
            return [r + str(i) for i in range(n, -1, -1)] if n else [r]
        order = [M, N, K]
        rng.shuffle(order)
        mapping["loop-order"] = {"Z": [x for r in order for x in lv(r)]}
    return dict(decl=decl, eins=[e], mapping=mapping, ext={K: rng.randint(1, 5), M: rng.randint(1, 7), N: rng.randint(1, 6)}, env={}, tags=["g3z", first, second])


def g3w(rng):
    """flatten() of three ranks of one tensor (the output, when it carries all three, is flattened and unflattened too)"""
    M, N, O = rng.choice([("M", "N", "O"), ("I", "J", "H")])
    # (an output carrying only some of the flattened ranks - Z[m, o] = A[m, n, o] * B[n] - makes Header.make_output raise KeyError
    #  on the unchanged tree: no program is returned, nothing to check; recorded in DESIGN 10.4)
    shape = rng.choice(["copy", "scale", "scale2"])
    decl = {"A": [M, N, O]}
    fa = ("t", "A", [V(M), V(N), V(O)])
    if shape == "copy":
        decl["Z"] = [M, N, O]
        e = dict(out="Z", oidx=[V(M), V(N), V(O)], terms=[dict(kind="times", factors=[fa], sel=None)])
    elif shape == "scale":
        decl.update({"B": [N], "Z": [M, N, O]})
        e = dict(out="Z", oidx=[V(M), V(N), V(O)], terms=[dict(kind="times", factors=[fa, ("t", "B", [V(N)])], sel=None)])
    else:
        decl.update({"B": [O, M], "Z": [M, N, O]})
        e = dict(out="Z", oidx=[V(M), V(N), V(O)], terms=[dict(kind="times", factors=[("t", "B", [V(O), V(M)]), fa], sel=None)])
    flat = M + N + O
    return dict(decl=decl, eins=[e], mapping={"partitioning": {"Z": {"(%s, %s, %s)" % (M, N, O): ["flatten()"]}}, "loop-order": {"Z": [flat]}},
                ext={M: rng.randint(1, 3), N: rng.randint(1, 3), O: rng.randint(1, 3)}, env={}, tags=["g3w", shape])


def g3(rng, variant=None):
    """product Einsums Z[m,n] = A[k,m] * B[k,n] (and variants) with uniform_occupancy / flatten"""
    variant = variant or rng.choice(["occ", "occ", "occ_under_shape", "occ2", "flatten", "flatten_occ", "occ_out"])
    K, M, N = rng.choice([("K", "M", "N"), ("J", "I", "P"), ("K", "I", "PI")])
    k, m, n = K.lower(), M.lower(), N.lower()
    shape = rng.choice(["mm", "mm", "mv", "dot3"])
    tags = ["g3:" + variant, shape]
    if shape == "mm":
        decl = {"A": [K, M], "B": [K, N], "Z": [M, N]}
        e = dict(out="Z", oidx=[V(M), V(N)], terms=[dict(kind="times", factors=[("t", "A", [V(K), V(M)]), ("t", "B", [V(K), V(N)])], sel=None)])
        ranks = [M, N, K]
    elif shape == "mv":
        decl = {"A": [K, M], "B": [K], "Z": [M]}
        e = dict(out="Z", oidx=[V(M)], terms=[dict(kind="times", factors=[("t", "A", [V(K), V(M)]), ("t", "B", [V(K)])], sel=None)])
        ranks = [M, K]
    else:
        decl = {"A": [K], "B": [K], "C": [K, M], "Z": [M]}
        e = dict(out="Z", oidx=[V(M)], terms=[dict(kind="times", factors=[("t", "A", [V(K)]), ("t", "B", [V(K)]), ("t", "C", [V(K), V(M)])], sel=None)])
        ranks = [M, K]
    case = dict(decl=decl, eins=[e], mapping={}, ext={r: rng.randint(1, 6) for r in ranks}, env={}, tags=tags)
    holders = [t for t in decl if t != "Z" and K in decl[t]]
    leader = rng.choice(holders)
    sz = rng.randint(1, 4)
    parts = {}
    loop = None
    if variant == "occ":
        parts[K] = ["uniform_occupancy(%s.%d)" % (leader, sz)]
        exp = [r for r in ranks if r != K] + [K + "1", K + "0"]
    elif variant == "occ2":
        s2 = sz * rng.randint(1, 3)
        leader2 = rng.choice([h for h in holders if h != leader] * 2 + [leader])
        parts[K] = ["uniform_occupancy(%s.%d)" % (leader, s2), "uniform_occupancy(%s.%d)" % (leader2, sz)]
        if leader2 != leader:
            tags.append("different_leaders")
        exp = [r for r in ranks if r != K] + [K + "2", K + "1", K + "0"]
    elif variant == "occ_under_shape":
        parts[K] = ["uniform_shape(%d)" % rng.randint(2, 5), "uniform_occupancy(%s.%d)" % (leader, sz)]
        exp = [r for r in ranks if r != K] + [K + "2", K + "1", K + "0"]
    elif variant == "occ_out":
        # occupancy partitioning of an uncontracted rank, led by an input that holds it
        hm = [t for t in decl if t != "Z" and M in decl[t]]
        parts[M] = ["uniform_occupancy(%s.%d)" % (rng.choice(hm), sz)]
        exp = [r for r in ranks if r != M] + [M + "1", M + "0"]
    elif variant in ("flatten", "flatten_occ"):
        if shape != "mm":
            decl = {"A": [K, M], "B": [K, N], "Z": [M, N]}
            e = dict(out="Z", oidx=[V(M), V(N)], terms=[dict(kind="times", factors=[("t", "A", [V(K), V(M)]), ("t", "B", [V(K), V(N)])], sel=None)])
            case.update(decl=decl, eins=[e], ext={r: rng.randint(1, 5) for r in (M, N, K)})
            case["tags"][1] = "mm"
        # flatten the two ranks of A
        tup = rng.choice([(K, M), (M, K)])
        key = "(%s, %s)" % tup
        flat = tup[0] + tup[1]
        parts[key] = ["flatten()"]
        if variant == "flatten_occ":
            parts[flat] = ["uniform_occupancy(A.%d)" % sz]
            exp = [flat + "1", flat + "0", N]
        else:
            exp = [flat, N]
        loop = list(exp)
        if rng.random() < 0.5:
            # N may go anywhere
            loop.remove(N)
            loop.insert(rng.randint(0, len(loop)), N)
    case["mapping"]["partitioning"] = {"Z": parts}
    if loop is None and rng.random() < 0.8:
        loop = level_sorted(rng, exp)
    if loop is not None:
        case["mapping"]["loop-order"] = {"Z": loop}
    return case


# ------------------------------------------------------------------------------------------ G4: affine index math

def g4(rng):
    """1-D convolution family  O[q] = I[a*q + b*s] * F[s]   (and a 2-D / extra-rank variant)"""
    a = rng.choice([1, 1, 2, 2, 3, 4])
    b = rng.choice([1, 1, 2, 2, 4])
    names = rng.choice([("Q", "S", "W"), ("P", "R", "H"), ("Q", "S", "W")])
    Q, S, W = names
    Qx, Sx = rng.randint(1, 7), rng.randint(1, 3)
    Wx = a * (Qx - 1) + b * (Sx - 1) + 1
    widx = [(a, Q.lower()), (b, S.lower())]
    extra = rng.random() < 0.3
    tags = ["conv", "a%d" % a, "b%d" % b]
    if extra:
        decl = {"I": ["C", W], "F": ["C", S], "O": [Q]}
        e = dict(out="O", oidx=[V(Q)], terms=[dict(kind="times", factors=[("t", "I", [V("C"), widx]), ("t", "F", [V("C"), V(S)])], sel=None)])
        ext = {Q: Qx, S: Sx, W: Wx, "C": rng.randint(1, 3)}
        tags.append("channel")
    else:
        decl = {"I": [W], "F": [S], "O": [Q]}
        e = dict(out="O", oidx=[V(Q)], terms=[dict(kind="times", factors=[("t", "I", [widx]), ("t", "F", [V(S)])], sel=None)])
        ext = {Q: Qx, S: Sx, W: Wx}
        if rng.random() < 0.5:
            # an operand indexed directly by the output rank sits un-projected next to the projected input
            decl["G"] = [Q]
            e["terms"][0]["factors"].append(("t", "G", [V(Q)]))
            tags.append("mask")
    case = dict(decl=decl, eins=[e], mapping={}, ext=ext, env={}, tags=tags)
    mode = rng.choice(["none", "none", "p1", "p1", "p2"])
    pre = ["C"] if extra else []
    if mode == "none":
        loops = [None, [Q, S], [S, Q], [W, Q], [W, S], [Q, W], [S, W]]
    elif mode == "p1":
        sz = rng.randint(1, 4)
        if rng.random() < 0.25:
            case["mapping"]["partitioning"] = {"O": {Q: ["nway_shape(%d)" % sz], W: ["follow(%s)" % Q]}}
            tags.append("nway")
        else:
            case["mapping"]["partitioning"] = {"O": {Q: ["uniform_shape(%d)" % sz], W: ["follow(%s)" % Q]}}
        loops = [None, [Q + "1", Q + "0", S], [Q + "1", S, Q + "0"], [Q + "1", W + "0", Q + "0"], [Q + "1", W + "0", S], [S, Q + "1", Q + "0"]]
        tags.append("part1")
    else:
        s1 = rng.randint(2, 6)
        s0 = rng.randint(1, s1)
        case["mapping"]["partitioning"] = {"O": {Q: ["uniform_shape(%d)" % s1, "uniform_shape(%d)" % s0], W: ["follow(%s)" % Q]}}
        loops = [None, [Q + "2", Q + "1", Q + "0", S], [Q + "2", Q + "1", S, Q + "0"], [Q + "2", Q + "1", W + "0", Q + "0"]]
        tags.append("part2")
    # extents of partition levels are user-supplied names (Q0 = innermost partition size, ...; W follows with stride a)
    stack = (case["mapping"].get("partitioning") or {}).get("O", {}).get(Q, [])
    for i, pstr in enumerate(reversed(stack)):
        sz = int(pstr[pstr.index("(") + 1:-1])
        if pstr.startswith("nway"):
            sz = (Qx - 1) // sz + 1
        case["env"][Q + str(i)] = sz
        case["env"][W + str(i)] = a * sz
    loop = rng.choice(loops)
    if loop is not None:
        if extra:
            loop = list(loop)
            loop.insert(rng.randint(0, len(loop)), "C")
        case["mapping"]["loop-order"] = {"O": loop}
        tags.append("loop:" + ",".join(root_of(x) for x in loop))
    return case


def g4n(rng):
    """general unpartitioned affine Einsums: 1-D / 2-D convolutions with strides and dilations, strided reads of a single
    variable (`G[2*q]`), an extra plain operand, optional second term over the same variables; loop order = a permutation of the
    index-variable ranks in which one rank may be replaced by the accessed tensor's own rank (the compiler rejects some: dropped)"""
    two_d = rng.random() < 0.35
    a, b = rng.choice([1, 1, 2, 3, 4]), rng.choice([1, 1, 1, 2, 4])
    tags = ["g4n", "conv", "a%d" % a, "b%d" % b]
    if two_d:
        a2, b2 = rng.choice([1, 1, 2]), rng.choice([1, 1, 2])
        Px, Qx, Rx, Sx = rng.randint(1, 3), rng.randint(1, 4), rng.randint(1, 2), rng.randint(1, 3)
        ext = {"P": Px, "Q": Qx, "R": Rx, "S": Sx, "H": a2 * (Px - 1) + b2 * (Rx - 1) + 1, "W": a * (Qx - 1) + b * (Sx - 1) + 1}
        decl = {"I": ["H", "W"], "F": ["R", "S"], "O": ["P", "Q"]}
        fI = ("t", "I", [[(a2, "p"), (b2, "r")], [(a, "q"), (b, "s")]])
        fs = [fI, ("t", "F", [V("R"), V("S")])]
        oidx = [V("P"), V("Q")]
        varranks = ["P", "Q", "R", "S"]
        own = {"H": ("P", "R"), "W": ("Q", "S")}
        tags += ["2d", "a%d" % a2, "b%d" % b2]
    else:
        Qx, Sx = rng.randint(1, 6), rng.randint(1, 3)
        ext = {"Q": Qx, "S": Sx, "W": a * (Qx - 1) + b * (Sx - 1) + 1}
        decl = {"I": ["W"], "F": ["S"], "O": ["Q"]}
        fs = [("t", "I", [[(a, "q"), (b, "s")]]), ("t", "F", [V("S")])]
        oidx = [V("Q")]
        varranks = ["Q", "S"]
        own = {"W": ("Q", "S")}
        if rng.random() < 0.3:
            c = rng.choice([2, 2, 3])
            decl["G"] = ["V"]
            ext["V"] = c * (Qx - 1) + 1
            fs.append(("t", "G", [[(c, "q")]]))
            tags += ["strided_read", "a%d" % c]
        if rng.random() < 0.3:
            decl["M"] = ["Q"]
            fs.append(("t", "M", [V("Q")]))
            tags.append("mask")
    rng.shuffle(fs)
    terms = [dict(kind="times", factors=fs, sel=None)]
    if not two_d and rng.random() < 0.2:
        decl["J"] = list(decl["I"]); decl["K"] = ["S"]
        terms.append(dict(kind="times", factors=[("t", "J", [[(a, "q"), (b, "s")]]), ("t", "K", [V("S")])], sel=None))
        tags.append("two_terms")
    e = dict(out="O", oidx=oidx, terms=terms)
    case = dict(decl=decl, eins=[e], mapping={}, ext=ext, env={}, tags=tags)
    if rng.random() < 0.85:
        loop = list(varranks)
        rng.shuffle(loop)
        r = rng.random()
        if r < 0.4:
            w = rng.choice(sorted(own))
            victim = rng.choice(own[w])
            loop[loop.index(victim)] = w
            tags.append("own_rank_loop")
        elif r < 0.52:
            # redundant: the accessed tensor's own rank IN ADDITION to all index variables of its access (the unchanged compiler
            # refuses these; whatever is accepted must still compute the Einsum)
            w = rng.choice(sorted(own))
            loop.insert(rng.randint(0, len(loop)), w)
            tags.append("redundant_loop_order")
        case["mapping"]["loop-order"] = {"O": loop}
        tags.append("loop:" + ",".join(loop))
    return case


def g4p(rng):
    """shape-partitioned convolutions in output-stationary form (the lower output level is iterated by range): strides, dilations,
    optional channel rank, one or two followers in a term, optionally two terms; uniform_shape or nway_shape on the output rank"""
    a = rng.choice([1, 1, 2, 2, 3, 4])
    b = rng.choice([1, 1, 2, 4])
    Qx, Sx = rng.randint(1, 7), rng.randint(1, 3)
    Wx = a * (Qx - 1) + b * (Sx - 1) + 1
    widx = [(a, "q"), (b, "s")]
    tags = ["g4p", "conv", "a%d" % a, "b%d" % b, "part1"]
    chan = rng.random() < 0.3
    pre = [V("C")] if chan else []
    prer = ["C"] if chan else []
    decl = {"I": prer + ["W"], "F": prer + ["S"], "O": ["Q"]}
    fs = [("t", "I", pre + [widx]), ("t", "F", pre + [V("S")])]
    ext = {"Q": Qx, "S": Sx, "W": Wx}
    if chan:
        ext["C"] = rng.randint(1, 3); tags.append("channel")
    if rng.random() < 0.25:
        decl["J"] = prer + ["W"]
        fs.append(("t", "J", pre + [widx])); tags.append("two_followers")
    rng.shuffle(fs)
    terms = [dict(kind="times", factors=fs, sel=None)]
    if rng.random() < 0.2:
        decl["K"] = list(decl["I"]); decl["H"] = list(decl["F"])
        terms.append(dict(kind="times", factors=[("t", "K", pre + [widx]), ("t", "H", pre + [V("S")])], sel=None)); tags.append("two_terms")
    e = dict(out="O", oidx=[V("Q")], terms=terms)
    case = dict(decl=decl, eins=[e], mapping={}, ext=ext, env={}, tags=tags)
    if rng.random() < 0.3:
        k = rng.randint(1, 4)
        case["mapping"]["partitioning"] = {"O": {"Q": ["nway_shape(%d)" % k], "W": ["follow(Q)"]}}
        sz = (Qx - 1) // k + 1
        tags.append("nway")
    else:
        sz = rng.randint(1, 5)
        case["mapping"]["partitioning"] = {"O": {"Q": ["uniform_shape(%d)" % sz], "W": ["follow(Q)"]}}
    case["env"]["Q0"] = sz
    case["env"]["W0"] = a * sz
    if rng.random() < 0.8:
        loop = ["Q1", "Q0", "S"]
        if chan:
            loop.insert(rng.randint(0, 3), "C")
        if rng.random() < 0.3 and not chan:
            pass
        case["mapping"]["loop-order"] = {"O": loop}
        tags.append("loop:" + ",".join(loop))
    return case


def g4q(rng, part=None):
    """convolutions over TWO reduction variables, `O[q] = I[a*q + b*s + c*v] * F[s] * K[v]`, the terms of the index expression in
    any order, b and c of either sign (a negative coefficient needs a pre-halo under shape partitioning; the coordinates below 0
    are simply absent); optionally the output rank shape-partitioned with the input rank following; loop order omitted,
    output-stationary, or with the lower output level innermost"""
    a = rng.choice([1, 1, 2])
    b = rng.choice([1, 2, -1, -1, -2])
    c = rng.choice([1, 2, -1, -2, -2])
    Qx, Sx, Vx = rng.choice([1, 3, 4, 5, 6, 7, 8]), rng.choice([1, 2, 2, 3]), rng.choice([1, 2, 2, 3])
    hi = a * (Qx - 1) + max(b, 0) * (Sx - 1) + max(c, 0) * (Vx - 1)
    widx = [(a, "q"), (b, "s"), (c, "v")]
    rng.shuffle(widx)
    tags = ["g4q", "conv", "a%d" % a, "b%d" % b, "c%d" % c, "neg%d" % ((b < 0) + (c < 0))]
    decl = {"I": ["W"], "F": ["S"], "K": ["V"], "O": ["Q"]}
    fs = [("t", "I", [widx]), ("t", "F", [V("S")]), ("t", "K", [V("V")])]
    rng.shuffle(fs)
    ext = {"Q": Qx, "S": Sx, "V": Vx, "W": hi + 1}
    e = dict(out="O", oidx=[V("Q")], terms=[dict(kind="times", factors=fs, sel=None)])
    case = dict(decl=decl, eins=[e], mapping={}, ext=ext, env={}, tags=tags)
    if part is None:
        part = rng.random() < 0.7
    if part:
        sz = rng.choice([1, 2, 2, 3, 3, 4, 5])
        case["mapping"]["partitioning"] = {"O": {"Q": ["uniform_shape(%d)" % sz], "W": ["follow(Q)"]}}
        case["env"]["Q0"] = sz
        case["env"]["W0"] = a * sz
        tags.append("part1")
        r = rng.random()
        if r < 0.4:
            loop = ["Q1", "Q0"] + rng.sample(["S", "V"], 2)
        elif r < 0.8:
            loop = ["Q1"] + rng.sample(["S", "V"], 2) + ["Q0"]
        else:
            loop = None
    else:
        loop = rng.sample(["Q", "S", "V"], 3) if rng.random() < 0.5 else None
    if loop:
        case["mapping"]["loop-order"] = {"O": loop}
        tags.append("loop:" + ",".join(loop))
    return case


def g4s(rng):
    """convolution in which BOTH the output rank (with the input rank following) and the reduction rank are shape-partitioned, so a
    bottom-rank projection mentions two partitioned index variables: O[q] = I[a*q + b*s] * F[s]"""
    a = rng.choice([1, 1, 2])
    b = rng.choice([1, 1, 2])
    Qx, Sx = rng.randint(2, 7), rng.randint(2, 5)
    Wx = a * (Qx - 1) + b * (Sx - 1) + 1
    widx = [(a, "q"), (b, "s")]
    if rng.random() < 0.3:
        widx.reverse()
    fs = [("t", "I", [widx]), ("t", "F", [V("S")])]
    rng.shuffle(fs)
    e = dict(out="O", oidx=[V("Q")], terms=[dict(kind="times", factors=fs, sel=None)])
    qs, ss = rng.randint(1, 4), rng.randint(1, 3)
    parts = {"Q": ["uniform_shape(%d)" % qs], "W": ["follow(Q)"], "S": ["uniform_shape(%d)" % ss]}
    case = dict(decl={"I": ["W"], "F": ["S"], "O": ["Q"]}, eins=[e], mapping={"partitioning": {"O": parts}}, ext={"Q": Qx, "S": Sx, "W": Wx},
                env={"Q0": qs, "S0": ss, "W0": a * qs}, tags=["g4s", "conv", "a%d" % a, "b%d" % b, "part1", "two_partitioned_index_variables"])
    lo = rng.choice([None, ["Q1", "S1", "Q0", "S0"], ["Q1", "Q0", "S1", "S0"], ["S1", "Q1", "S0", "Q0"], ["Q1", "S1", "S0", "Q0"]])
    if lo:
        case["mapping"]["loop-order"] = {"O": lo}
        case["tags"].append("loop:" + ",".join(lo))
    return case


def g4b(rng):
    """convolution with two inputs sharing the affine access, shape + occupancy partitioning of the output rank
    (leader: one of the inputs), input rank following"""
    a = rng.choice([1, 1, 2])
    b = rng.choice([1, 1, 2])
    Q, S, W = rng.choice([("Q", "S", "W"), ("P", "R", "H")])
    Qx, Sx = rng.randint(2, 8), rng.randint(1, 3)
    Wx = a * (Qx - 1) + b * (Sx - 1) + 1
    widx = [(a, Q.lower()), (b, S.lower())]
    decl = {"I": [W], "J": [W], "F": [S], "O": [Q]}
    fs = [("t", "I", [widx]), ("t", "J", [widx]), ("t", "F", [V(S)])]
    rng.shuffle(fs)
    e = dict(out="O", oidx=[V(Q)], terms=[dict(kind="times", factors=fs, sel=None)])
    case = dict(decl=decl, eins=[e], mapping={}, ext={Q: Qx, S: Sx, W: Wx}, env={}, tags=["conv2in", "a%d" % a, "b%d" % b])
    leader = rng.choice(["I", "J"])
    s1 = rng.randint(2, 8)
    occ = rng.randint(1, 4)
    variant = rng.choice(["shape_occ", "shape_occ", "occ", "shape"])
    if variant == "shape_occ":
        stack = ["uniform_shape(%d)" % s1, "uniform_occupancy(%s.%d)" % (leader, occ)]
        loops = [[Q + "2", Q + "1", S, Q + "0"], [Q + "2", Q + "1", Q + "0", S], None]
    elif variant == "occ":
        stack = ["uniform_occupancy(%s.%d)" % (leader, occ)]
        loops = [[Q + "1", S, Q + "0"], [Q + "1", Q + "0", S], None]
    else:
        stack = ["uniform_shape(%d)" % s1]
        loops = [[Q + "1", S, Q + "0"], [Q + "1", Q + "0", S], [Q + "1", W + "0", Q + "0"], None]
    case["mapping"]["partitioning"] = {"O": {Q: stack, W: ["follow(%s)" % Q]}}
    case["tags"].append("g4b:" + variant)
    sizes = [int(x[x.index("(") + 1:-1]) for x in stack if x.startswith("uniform_shape")]
    for i, sz in enumerate(reversed(sizes)):
        lvl = i + (len(stack) - len(sizes))
        case["env"][Q + str(lvl)] = sz
        case["env"][W + str(lvl)] = a * sz
    loop = rng.choice(loops)
    if loop is not None:
        case["mapping"]["loop-order"] = {"O": loop}
    return case


def g7conv(rng):
    """convolution in metrics mode with a leader-follower intersector on the filter rank (follower projected)"""
    a = rng.choice([1, 1, 2])
    Qx, Sx = rng.randint(1, 7), rng.randint(1, 3)
    Wx = a * (Qx - 1) + (Sx - 1) + 1
    fs = [("t", "I", [[(a, "q"), (1, "s")]]), ("t", "F", [V("S")])]
    if rng.random() < 0.5:
        fs.reverse()
    e = dict(out="O", oidx=[V("Q")], terms=[dict(kind="times", factors=fs, sel=None)])
    case = dict(decl={"I": ["W"], "F": ["S"], "O": ["Q"]}, eins=[e], ext={"Q": Qx, "S": Sx, "W": Wx}, env={}, tags=["g7conv"],
                mapping={"loop-order": {"O": ["Q", "S"]}, "spacetime": {"O": {"space": [], "time": ["Q", "S"]}}})
    fmt = lambda r: {"default": {"rank-order": [r], r: {"format": "C", "cbits": 32, "pbits": 32}}}
    case["format"] = {"I": fmt("W"), "F": fmt("S"), "O": fmt("Q")}
    case["architecture"] = {"accel": [{"name": "System", "attributes": {"clock_frequency": 1000},
                                       "local": [{"name": "Intersect", "class": "Intersector", "attributes": {"type": "leader-follower"}},
                                                 {"name": "FPMul", "class": "compute", "attributes": {"type": "mul"}}]}]}
    case["bindings"] = {"O": [{"config": "accel", "prefix": "tmp/conv_O"}, {"component": "Intersect", "bindings": [{"rank": "S", "leader": "F"}]},
                              {"component": "FPMul", "bindings": [{"op": "mul"}]}]}
    return case


# ------------------------------------------------------------------------------------------ G5: cascades

def g5conv(rng):
    """cascade whose first Einsum uses index math and whose second re-uses the index names plainly"""
    Qx, Sx = rng.randint(1, 5), rng.randint(1, 3)
    Wx = Qx + Sx - 1
    e1 = dict(out="T", oidx=[V("Q")], terms=[dict(kind="times", factors=[("t", "I", [[(1, "q"), (1, "s")]]), ("t", "F", [V("S")])], sel=None)])
    second = rng.choice(["wq", "ws", "q"])
    if second == "wq":
        decl2, e2 = {"Z": ["W", "Q"]}, dict(out="Z", oidx=[V("W"), V("Q")], terms=[dict(kind="times", factors=[("t", "I", [V("W")]), ("t", "T", [V("Q")])], sel=None)])
    elif second == "ws":
        decl2, e2 = {"Z": ["W", "S"]}, dict(out="Z", oidx=[V("W"), V("S")], terms=[dict(kind="times", factors=[("t", "I", [V("W")]), ("t", "F", [V("S")])], sel=None)])
    else:
        decl2, e2 = {"Z": ["Q"]}, dict(out="Z", oidx=[V("Q")], terms=[dict(kind="times", factors=[("t", "T", [V("Q")])], sel=None)])
    decl = {"I": ["W"], "F": ["S"], "T": ["Q"]}
    decl.update(decl2)
    mapping = {}
    r = rng.choice(decl2["Z"])
    opt = rng.choice(["shape", "occ", "flatten", "none"])
    if opt == "shape":
        mapping["partitioning"] = {"Z": {r: ["uniform_shape(%d)" % rng.randint(1, 4)]}}
    elif opt == "occ" and second != "q":
        lead = "I" if r == "W" else ("T" if r == "Q" else "F")
        mapping["partitioning"] = {"Z": {r: ["uniform_occupancy(%s.%d)" % (lead, rng.randint(1, 3))]}}
    return dict(decl=decl, eins=[e1, e2], mapping=mapping, ext={"Q": Qx, "S": Sx, "W": Wx}, env={}, tags=["g5conv", second, opt])


def g5conv2(rng):
    """cascade of two shape-partitioned convolutions over the same input with different filter extents (different halos):
    O1[q] = I[q + s] * F[s];  O2[p] = I[p + t] * G[t]; in half of the cases both outputs use the SAME rank Q (so that the two
    Einsums partition the same (rank, partitioned rank) pair with different halos), optionally with O1 read by the second"""
    Sx, Tx = rng.sample([1, 2, 3, 4], 2)
    Wx = rng.randint(max(Sx, Tx), max(Sx, Tx) + 6)
    same = rng.random() < 0.5
    P = "Q" if same else "P"
    p = P.lower()
    Qx, Px = Wx - Sx + 1, Wx - Tx + 1
    if same:
        Qx = Px = min(Qx, Px)
    e1 = dict(out="O1", oidx=[V("Q")], terms=[dict(kind="times", factors=[("t", "I", [[(1, "q"), (1, "s")]]), ("t", "F", [V("S")])], sel=None)])
    fs2 = [("t", "I", [[(1, p), (1, "t")]]), ("t", "G", [V("T")])]
    tags = ["g5conv2", "conv", "a1", "b1", "part1", "cascade_conv"]
    if same and rng.random() < 0.5:
        fs2.insert(rng.randint(0, 2), ("t", "O1", [V("Q")])); tags.append("reads_intermediate")
    e2 = dict(out="O2", oidx=[V(P)], terms=[dict(kind="times", factors=fs2, sel=None)])
    sz = rng.randint(1, 4)
    lo1 = rng.choice([["Q1", "W0", "Q0"], ["Q1", "Q0", "S"], ["Q1", "S", "Q0"]])
    lo2 = rng.choice([[P + "1", "W0", P + "0"], [P + "1", P + "0", "T"], [P + "1", "T", P + "0"]])
    mapping = {"partitioning": {"O1": {"Q": ["uniform_shape(%d)" % sz], "W": ["follow(Q)"]}, "O2": {P: ["uniform_shape(%d)" % sz], "W": ["follow(%s)" % P]}},
               "loop-order": {"O1": lo1, "O2": lo2}}
    if rng.random() < 0.3:
        del mapping["partitioning"]["O1"]; mapping["loop-order"]["O1"] = rng.choice([["Q", "S"], ["S", "Q"], ["W", "Q"]])
    ext = {"Q": Qx, "S": Sx, "W": Wx, "T": Tx}
    ext[P] = Px
    return dict(decl={"I": ["W"], "F": ["S"], "G": ["T"], "O1": ["Q"], "O2": [P]}, eins=[e1, e2], mapping=mapping,
                ext=ext, env={"Q0": sz, "P0": sz, "W0": sz}, tags=tags)


def g7occ(rng):
    """metrics specification whose input tensor is occupancy-split (not flattened), the split possibly happening below an outer
    loop, with a format for the tensor in its final rank order and buffer bindings on a level of the split rank"""
    two = rng.random() < 0.5
    if two:
        decl = {"A": ["M", "K"], "B": ["K"], "Z": ["M"]}
        fs = [("t", "A", [V("M"), V("K")]), ("t", "B", [V("K")])]
    else:
        decl = {"A": ["M", "K"], "Z": ["M"]}
        fs = [("t", "A", [V("M"), V("K")])]
    e = dict(out="Z", oidx=[V("M")], terms=[dict(kind="times", factors=fs, sel=None)])
    nl = rng.choice([1, 1, 2])
    lead = "A" if not two or rng.random() < 0.7 else "B"
    stack = ["uniform_occupancy(%s.%d)" % (lead, rng.randint(1, 4)) for _ in range(nl)]
    klev = ["K%d" % j for j in range(nl, -1, -1)]
    pos = rng.randint(0, len(klev))
    loop = klev[:pos] + ["M"] + klev[pos:]
    order = list(loop) if rng.random() < 0.7 else ["M"] + klev
    brank = rng.choice(klev)
    fmtA = {"rank-order": order}
    for r in order:
        fmtA[r] = {"format": "C", "cbits": 32, "pbits": 64} if r == brank or rng.random() < 0.5 else {"format": "U"}
    buf = rng.choice(["Cache", "Buffet"])
    battr = {"width": 64, "depth": 1024}
    bind = {"tensor": "A", "rank": brank, "type": "elem", "format": "default"}
    if buf == "Buffet":
        bind.update({"evict-on": rng.choice(["root", loop[0]]), "style": rng.choice(["lazy", "eager"])})
    case = dict(decl=decl, eins=[e], ext={"M": rng.randint(1, 4), "K": rng.randint(1, 7)}, env={}, tags=["g7occ", "occ%d" % nl, buf, "outer" if pos < len(klev) and loop[0] == "M" else "inner"],
                mapping={"partitioning": {"Z": {"K": stack}}, "loop-order": {"Z": loop}, "spacetime": {"Z": {"space": [], "time": list(loop)}}})
    case["architecture"] = {"accel": [{"name": "level0", "attributes": {"clock_frequency": 2048},
                                       "local": [{"name": "DRAM", "class": "DRAM", "attributes": {"bandwidth": 512}}],
                                       "subtree": [{"name": "level1", "local": [{"name": "L2", "class": buf, "attributes": battr}]}]}]}
    case["bindings"] = {"Z": [{"config": "accel", "prefix": "tmp/Z"},
                              {"component": "DRAM", "bindings": [{"tensor": "A", "rank": brank, "type": "elem", "format": "default"}]},
                              {"component": "L2", "bindings": [bind]}]}
    case["format"] = {"A": {"default": fmtA}, "Z": {"default": {"rank-order": ["M"], "M": {"format": "C", "cbits": 32, "pbits": 64}}}}
    if two:
        case["format"]["B"] = {"default": {"rank-order": ["K"], "K": {"format": "C", "cbits": 32, "pbits": 64}}}
    return case


def g4c(rng):
    """convolution where the *input* rank is partitioned and the output rank follows it (fractional coefficient)"""
    a = rng.choice([1, 2, 2, 4])
    Qx, Sx = rng.randint(1, 6), rng.randint(1, 3)
    Wx = a * (Qx - 1) + (Sx - 1) + 1
    fs = [("t", "I", [[(a, "q"), (1, "s")]]), ("t", "F", [V("S")]), ("t", "G", [V("Q")])]
    e = dict(out="Z", oidx=[V("S")], terms=[dict(kind="times", factors=fs, sel=None)])
    case = dict(decl={"I": ["W"], "F": ["S"], "G": ["Q"], "Z": ["S"]}, eins=[e], ext={"Q": Qx, "S": Sx, "W": Wx}, env={}, tags=["g4c", "conv", "a%d" % a, "b1", "part1"],
                mapping={"partitioning": {"Z": {"W": [rng.choice(["nway_shape(%d)" % rng.randint(1, 4), "uniform_shape(%d)" % rng.randint(1, 6)])], "Q": ["follow(W)"]}},
                         "loop-order": {"Z": rng.choice([["S", "W1", "W0"], ["W1", "S", "W0"], ["W1", "W0", "S"]])}})
    return case


def g7lfa(rng, **opts):
    """like g7lf, with operands of DIFFERENT shapes below the intersected rank (A[k, m], B[k, n], C[k, p]), so that the payloads the
    intersection hands out are fibers of different ranks: which tensor leads is then visible in the result"""
    shapes = {"A": ["K", "M"], "B": ["K", "N"], "C": ["K", "P"]}
    n = rng.randint(2, 3)
    decl = {t: list(r) for t, r in shapes.items()}
    eins, bindings, loop, st = [], {}, {}, {}
    ty = rng.choice(["leader-follower", "leader-follower", "two-finger"])
    for i in range(n):
        out = "T%d" % i if i < n - 1 else "Z"
        fs = rng.sample(sorted(shapes), 2)
        oranks = [shapes[t][1] for t in sorted(fs)]
        decl[out] = list(oranks)
        eins.append(dict(out=out, oidx=[V(r) for r in oranks], terms=[dict(kind="times", factors=[("t", t, [V(r) for r in shapes[t]]) for t in fs], sel=None)]))
        lo = ["K"] + rng.sample(oranks, 2)
        loop[out] = lo
        st[out] = {"space": [], "time": list(lo)}
        b = {"rank": "K"}
        if ty == "leader-follower":
            b["leader"] = fs[0]
        bindings[out] = [{"config": "accel", "prefix": "tmp/" + out}, {"component": "IS", "bindings": [b]}]
    arch = {"accel": [{"name": "level0", "attributes": {"clock_frequency": 10 ** 9},
                       "local": [{"name": "IS", "class": "Intersector", "attributes": {"type": ty}}]}]}
    fmt = {"Z": {"default": {"rank-order": list(decl["Z"]), decl["Z"][0]: {"format": "C", "pbits": 32}, decl["Z"][1]: {"format": "C", "pbits": 64}}}}
    return dict(decl=decl, eins=eins, mapping={"loop-order": loop, "spacetime": st}, architecture=arch, bindings=bindings, format=fmt,
                ext={"K": rng.randint(1, 5), "M": rng.randint(1, 3), "N": rng.randint(1, 3), "P": rng.randint(1, 3)}, env={}, tags=["g7lfa", ty, "n%d" % n])


def g7lf(rng, **opts):
    """metrics specifications: a cascade over the same inputs in which one intersector is bound to the same rank in every
    Einsum, with the leader (always the Einsum's first factor) differing from Einsum to Einsum"""
    nin = rng.choice([2, 2, 3])
    ins = ["A", "B", "C"][:nin]
    n = rng.randint(2, 3)
    two = rng.random() < 0.4            # rank order [M, K] or [K, M]
    iranks = ["M", "K"] if not two else ["K", "M"]
    decl = {t: list(iranks) for t in ins}
    eins, outs = [], []
    ty = rng.choice(["leader-follower", "leader-follower", "two-finger", "skip-ahead"])
    bindings, loop, st = {}, {}, {}
    for i in range(n):
        out = "T%d" % i if i < n - 1 else "Z"
        decl[out] = ["M"]
        fs = ins[:]
        rng.shuffle(fs)
        if ty != "leader-follower":
            fs = fs[:2]
        factors = [("t", t, [V(r) for r in iranks]) for t in fs]
        if outs and rng.random() < 0.5:
            factors.append(("t", outs[-1], [V("M")]))
        eins.append(dict(out=out, oidx=[V("M")], terms=[dict(kind="times", factors=factors, sel=None)]))
        outs.append(out)
        loop[out] = list(iranks)
        st[out] = {"space": [], "time": list(iranks)}
        b = {"rank": "K"}
        if ty == "leader-follower":
            b["leader"] = fs[0]
        bindings[out] = [{"config": "accel", "prefix": "tmp/" + out}, {"component": "IS", "bindings": [b]}]
    arch = {"accel": [{"name": "level0", "attributes": {"clock_frequency": 10 ** 9},
                       "local": [{"name": "IS", "class": "Intersector", "attributes": {"type": ty}}]}]}
    fmt = {"Z": {"default": {"rank-order": ["M"], "M": {"format": "C", "pbits": 64}}}}
    return dict(decl=decl, eins=eins, mapping={"loop-order": loop, "spacetime": st}, architecture=arch, bindings=bindings, format=fmt,
                ext={"M": rng.randint(1, 4), "K": rng.randint(1, 5)}, env={}, tags=["g7lf", ty, "n%d" % n])


def g7fmt(rng, **opts):
    """metrics specifications in which a tensor's FORMAT (and hence its buffer bindings) is declared on the ranks of the
    declaration while the mapping tiles one of them (the collector maps the bound rank to its top level, e.g. K -> K1);
    the other input's format is declared on the tiled ranks; DRAM -> Buffet or Cache, bindings on the tiled rank or the other one"""
    K, M = rng.choice([("K", "M"), ("J", "I")])
    two = rng.random() < 0.6
    decl = {"A": [M, K], "Z": [M]}
    fs = [("t", "A", [V(M), V(K)])]
    if two:
        decl["B"] = [K]
        fs.insert(rng.randint(0, 1), ("t", "B", [V(K)]))
    e = dict(out="Z", oidx=[V(M)], terms=[dict(kind="times", factors=fs, sel=None)])
    nl = rng.choice([1, 1, 2])
    a = rng.randint(1, 3)
    stack = ["uniform_shape(%d)" % (a * rng.randint(2, 3)), "uniform_shape(%d)" % a][2 - nl:]
    klev = [K + str(j) for j in range(nl, -1, -1)]
    pos = rng.randint(0, 1)
    loop = klev[:pos] + [M] + klev[pos:] if rng.random() < 0.7 else [M] + klev
    a_plain = rng.random() < 0.75                       # A's format on the declaration's ranks
    a_order = [M, K] if a_plain else [r for r in loop]
    def fmt(order, bound):
        f = {"rank-order": list(order)}
        for r in order:
            f[r] = {"format": "C", "cbits": 32, "pbits": 64} if r == bound or rng.random() < 0.5 else {"format": "U", "pbits": 32}
        return f
    a_rank = rng.choice([K, K, M]) if a_plain else rng.choice(a_order)
    formats = {"A": {"default": fmt(a_order, a_rank)}, "Z": {"default": {"rank-order": [M], M: {"format": "C", "cbits": 32, "pbits": 64}}}}
    buf = rng.choice(["Buffet", "Buffet", "Cache"])
    evict = {"evict-on": rng.choice([x for x in loop if loop.index(x) < max(1, loop.index(klev[-1]))] or [loop[0]])} if buf == "Buffet" else {}
    dram, onchip = [], []
    for ty in rng.choice([["coord", "payload"], ["payload"], ["coord"]]):
        dram.append({"tensor": "A", "rank": a_rank, "type": ty, "format": "default"})
        onchip.append(dict({"tensor": "A", "rank": a_rank, "type": ty, "format": "default"}, **evict))
    if two:
        b_plain = rng.random() < 0.4
        b_order = [K] if b_plain else list(klev)
        b_rank = K if b_plain else rng.choice(b_order)
        formats["B"] = {"default": fmt(b_order, b_rank)}
        if rng.random() < 0.7:
            dram.append({"tensor": "B", "rank": b_rank, "type": "payload", "format": "default"})
            onchip.append(dict({"tensor": "B", "rank": b_rank, "type": "payload", "format": "default"}, **evict))
    arch = {"accel": [{"name": "System", "attributes": {"clock_frequency": 10 ** 9},
                       "local": [{"name": "DRAM", "class": "DRAM", "attributes": {"bandwidth": 512}}],
                       "subtree": [{"name": "PE", "local": [{"name": "Buf", "class": buf, "attributes": {"width": 64, "depth": 1024}},
                                                             {"name": "MAC", "class": "compute", "attributes": {"type": "mul"}}]}]}]}
    bindings = {"Z": [{"config": "accel", "prefix": "tmp/Z"}, {"component": "DRAM", "bindings": dram}, {"component": "Buf", "bindings": onchip},
                      {"component": "MAC", "bindings": [{"op": "mul"}]}]}
    return dict(decl=decl, eins=[e], mapping={"partitioning": {"Z": {K: stack}}, "loop-order": {"Z": loop}, "spacetime": {"Z": {"space": [], "time": list(loop)}}},
                architecture=arch, bindings=bindings, format=formats, ext={M: rng.randint(1, 4), K: rng.randint(1, 9)}, env={},
                tags=["g7fmt", buf, "A_plain" if a_plain else "A_tiled", "rank:" + a_rank])


def g7mrg(rng, **opts):
    """metrics specifications with TWO hardware mergers in one Einsum, one per input tensor: Z[m, n] = A[k, m, n] * B[k, m, n] (or a
    third, unmerged operand), random storage orders and loop order; a merger's init-ranks are the storage order or another order
    (the compiler then swizzles for free into the init order first), its final-ranks the loop order"""
    K, M, N = rng.choice([("K", "M", "N"), ("J", "I", "H")])
    ranks = [K, M, N]
    names = ["A", "B"] + (["C"] if rng.random() < 0.3 else [])
    store = {t: rng.sample(ranks, 3) for t in names}
    decl = {t: list(store[t]) for t in names}
    decl["Z"] = [M, N]
    loop = rng.sample(ranks, 3)
    fs = [("t", t, [V(r) for r in decl[t]]) for t in names]
    rng.shuffle(fs)
    e = dict(out="Z", oidx=[V(M), V(N)], terms=[dict(kind="times", factors=fs, sel=None)])
    locs, binds = [], [{"config": "accel", "prefix": "tmp/Z"}]
    tags = ["g7mrg"]
    merged = [t for t in names[:2] if store[t] != loop]
    if rng.random() < 0.15 and len(merged) == 2:
        merged = merged[:1]
    for t in merged:
        init = list(store[t])
        if rng.random() < 0.6:
            init = rng.sample(ranks, 3)
            if init == loop:
                init = list(store[t])
        tags.append("init_is_storage" if init == store[t] else "init_not_storage")
        nm = "Merger" + t
        locs.append({"name": nm, "class": "Merger", "attributes": {"inputs": rng.choice([2, 16, "inf"]), "comparator_radix": rng.choice([2, 16]), "outputs": 1, "order": rng.choice(["fifo", "opt"]), "reduce": False}})
        binds.append({"component": nm, "bindings": [{"tensor": t, "init-ranks": init, "final-ranks": list(loop)}]})
    tags.append("mergers%d" % len(merged))
    rng.shuffle(locs)
    if rng.random() < 0.5:
        binds[1:] = list(reversed(binds[1:]))
    arch = {"accel": [{"name": "chip", "attributes": {"clock_frequency": 1000}, "local": locs}]}
    fmt = {"Z": {"default": {"rank-order": [M, N], M: {"format": "C", "pbits": 32}, N: {"format": "C", "cbits": 32, "pbits": 64}}}}
    for t in names:
        f = {"rank-order": list(loop)}
        for r in loop:
            f[r] = {"format": "C", "cbits": 32, "pbits": 64}
        fmt[t] = {"default": f}
    return dict(decl=decl, eins=[e], mapping={"loop-order": {"Z": loop}, "spacetime": {"Z": {"space": [], "time": list(loop)}}},
                architecture=arch, bindings={"Z": binds}, format=fmt, ext={K: rng.randint(1, 4), M: rng.randint(1, 3), N: rng.randint(1, 3)}, env={}, tags=tags)


def g5flat(rng):
    """cascade whose INTERMEDIATE is produced under a flatten() of ranks that are adjacent and in order in its layout (so the
    flattened and the final tensor spell the same variable name), then read by one or two later Einsums"""
    three = rng.random() < 0.5
    M, N, O = rng.choice([("M", "N", "O"), ("I", "J", "H")])
    ranks = [M, N, O] if three else [M, N]
    flat = ranks if (not three or rng.random() < 0.4) else rng.choice([ranks[:2], ranks[1:]])
    decl = {"A": list(ranks), "B": list(ranks), "T": list(ranks)}
    fs = [("t", "A", [V(r) for r in ranks]), ("t", "B", [V(r) for r in ranks])]
    if rng.random() < 0.4:
        fs = fs[:1]
    e1 = dict(out="T", oidx=[V(r) for r in ranks], terms=[dict(kind="times", factors=fs, sel=None)])
    flatname = "".join(flat)
    loop1 = [flatname if r == flat[0] else r for r in ranks if r == flat[0] or r not in flat]
    mapping = {"partitioning": {"T": {"(%s)" % ", ".join(flat): ["flatten()"]}}, "loop-order": {"T": loop1}}
    keep = rng.sample(ranks, rng.randint(1, len(ranks) - 1))
    keep = [r for r in ranks if r in keep]
    decl["Z"] = list(keep)
    fz = [("t", "T", [V(r) for r in ranks])]
    if rng.random() < 0.5:
        decl["C"] = [ranks[-1]]
        fz.insert(rng.randint(0, 1), ("t", "C", [V(ranks[-1])]))
    eins = [e1, dict(out="Z", oidx=[V(r) for r in keep], terms=[dict(kind="times", factors=fz, sel=None)])]
    tags = ["g5flat", "reads_intermediate", "flat%d" % len(flat)]
    if rng.random() < 0.4:
        decl["Y"] = [ranks[0]]
        eins.append(dict(out="Y", oidx=[V(ranks[0])], terms=[dict(kind="times", factors=[("t", "T", [V(r) for r in ranks])], sel=None)]))
        tags.append("two_readers")
    ext = {r: rng.randint(1, 4) for r in ranks}
    return dict(decl=decl, eins=eins, mapping=mapping, ext=ext, env={}, tags=tags)


def g7lz(rng, **opts):
    """metrics cascades in which ONE buffer holds the same fiber of the same tensor in several Einsums with DIFFERENT styles (lazy in
    one, eager in another) or types: T[m] = A[m, k] * B[k]; Z[m] = A[m, k] * T[m] (optionally a third Einsum)"""
    n = rng.choice([2, 2, 3])
    decl = {"A": ["M", "K"], "B": ["K"]}
    eins, loop, st, bindings = [], {}, {}, {}
    prev = "B"
    for i in range(n):
        out = "Z" if i == n - 1 else "T%d" % i
        decl[out] = ["M"]
        other = ("t", prev, [V("K")]) if prev == "B" else ("t", prev, [V("M")])
        fs = [("t", "A", [V("M"), V("K")]), other]
        if rng.random() < 0.3:
            fs.reverse()
        eins.append(dict(out=out, oidx=[V("M")], terms=[dict(kind="times", factors=fs, sel=None)]))
        loop[out] = ["M", "K"]
        st[out] = {"space": [], "time": ["M", "K"]}
        style = rng.choice(["lazy", "eager"])
        types = rng.choice([["coord"], ["payload"], ["coord", "payload"]]) if style == "lazy" else [rng.choice(["coord", "payload"])]
        mem = [{"tensor": "A", "rank": "K", "type": t, "format": "default"} for t in ("coord", "payload")]
        buf = [{"tensor": "A", "rank": "K", "type": t, "format": "default", "evict-on": "M", "style": style} for t in types]
        bindings[out] = [{"config": "Accelerator", "prefix": "tmp/" + out}, {"component": "Mem", "bindings": mem}, {"component": "Buf", "bindings": buf},
                         {"component": "FPMul", "bindings": [{"op": "mul"}]}]
        prev = out
    arch = {"Accelerator": [{"name": "System", "attributes": {"clock_frequency": 10 ** 9},
                             "local": [{"name": "Mem", "class": "DRAM", "attributes": {"bandwidth": 1024}}],
                             "subtree": [{"name": "Chip", "local": [{"name": "Buf", "class": "Buffet", "attributes": {"width": 64, "depth": 1024}},
                                                                    {"name": "FPMul", "class": "Compute", "attributes": {"type": "mul"}}]}]}]}
    fmt = {"A": {"default": {"rank-order": ["M", "K"], "M": {"format": "U", "pbits": 32}, "K": {"format": "C", "cbits": 32, "pbits": 64}}}}
    return dict(decl=decl, eins=eins, mapping={"loop-order": loop, "spacetime": st}, architecture=arch, bindings=bindings, format=fmt,
                ext={"M": rng.randint(1, 4), "K": rng.randint(1, 5)}, env={}, tags=["g7lz", "n%d" % n])


def colliding_rank_names(d):
    """some declared rank name is the concatenation of two or more declared rank names of the specification (`MI` next to `M` and
    `I`): the compiler's tensor variable names (<Tensor>_<ranks concatenated>) are then ambiguous, and it decides by NAME whether a
    swizzle is needed"""
    decl = (d.get("einsum") or {}).get("declaration") or {}
    names = sorted({r for rs in decl.values() for r in rs})
    def splits(w, depth=0):
        if w == "":
            return depth >= 2
        return any(w.startswith(n) and splits(w[len(n):], depth + 1) for n in names if n)
    return any(splits(n) for n in names)


def g5(rng):
    """cascade of 2-4 Einsums; later Einsums read earlier results"""
    n = rng.randint(2, 4)
    pool = rng.choice(RANK_POOLS)
    decl, eins, ext, tags = {}, [], {}, ["cascade%d" % n]
    mapping = {"loop-order": {}, "rank-order": {}, "partitioning": {}}
    avail = []          # produced tensors
    names = [x for x in TNAMES if x not in ("T", "Z")]
    rng.shuffle(names)
    for i in range(n):
        out = "Z" if i == n - 1 else "T%d" % i
        ranks = rng.sample(pool, rng.randint(1, 3))
        nout = rng.randint(0, len(ranks))
        oranks = ranks[:nout]
        factors = []
        covered = set()
        if avail and rng.random() < 0.85:
            src = rng.choice(avail)
            # read an earlier result: its ranks join this Einsum
            for r in decl[src]:
                if r not in ranks:
                    ranks.append(r)
            factors.append(("t", src, [V(r) for r in decl[src]]))
            covered |= set(decl[src])
            tags.append("reads_intermediate")
        nf = rng.randint(1, 2)
        for _ in range(nf):
            nm = names.pop()
            rs = rng.sample(ranks, rng.randint(1, len(ranks)))
            decl[nm] = rs
            factors.append(("t", nm, [V(r) for r in rs]))
            covered |= set(rs)
        miss = [r for r in ranks if r not in covered]
        if miss:
            nm = names.pop()
            decl[nm] = miss
            factors.append(("t", nm, [V(r) for r in miss]))
        rng.shuffle(factors)
        oro = list(oranks)
        rng.shuffle(oro)
        decl[out] = oro
        for r in ranks:
            ext.setdefault(r, rng.randint(1, 4))
        eins.append(dict(out=out, oidx=[V(r) for r in oro], terms=[dict(kind="times", factors=factors, sel=None)]))
        avail.append(out)
        if rng.random() < 0.6:
            lo = list(ranks)
            rng.shuffle(lo)
            mapping["loop-order"][out] = lo
        if rng.random() < 0.35:
            r = rng.choice(ranks)
            lv = level_names(r, 1)
            mapping["partitioning"][out] = {r: ["uniform_shape(%d)" % rng.randint(1, 4)]}
            if out in mapping["loop-order"]:
                lo = mapping["loop-order"][out]
                j = lo.index(r)
                lo[j:j + 1] = lv
            tags.append("partitioned_member")
    case = dict(decl=decl, eins=eins, mapping=mapping, ext=ext, env={}, tags=tags)
    add_rank_orders(rng, case, 0.4)
    return case


# ------------------------------------------------------------------------------------------ G6: spacetime

def add_spacetime(rng, case, loop_ranks_of):
    """loop_ranks_of: {einsum: [loop ranks]} (explicit loop order or the implementation's default)"""
    st = {}
    for out, lo in loop_ranks_of.items():
        k = rng.randint(0, len(lo))
        space = rng.sample(lo, k)
        space.sort(key=lo.index)
        time = [r for r in lo if r not in space]

        def style(r):
            x = rng.random()
            return r if x < 0.4 else (r + ".pos" if x < 0.7 else r + ".coord")
        ent = {"space": [style(r) for r in space], "time": [style(r) for r in time]}
        if rng.random() < 0.3:
            ent["opt"] = "slip"
        st[out] = ent
    case["mapping"]["spacetime"] = st
    case["tags"].append("spacetime")
    return case
