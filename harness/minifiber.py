"""minifiber — a small operational stand-in for the fibertree (HiFiber) runtime, used to *execute* emitted
programs.  It is NOT part of any proof: it is the workhorse of the failing-input search and a cross-check
of the Lean reference semantics.  The contract implemented here is the one written down in DESIGN.md §7.3
(and, in Lean, next to TeaalVerif/FT/*.lean).

Tree-shaped: a Fiber is two parallel lists (coords, payloads); leaf payloads are Payload objects so that
`z_ref += v` / `z_ref <<= v` mutate in place exactly as in fibertree.
"""
import copy


class Payload:
    __slots__ = ("value",)

    def __init__(self, value=0):
        self.value = value

    @staticmethod
    def get(x):
        return x.value if isinstance(x, Payload) else x

    def __iadd__(self, o):
        self.value = self.value + Payload.get(o)
        REC.updates += 1
        return self

    def __ilshift__(self, o):
        self.value = Payload.get(o)
        REC.updates += 1
        return self

    def __add__(self, o):
        return self.value + Payload.get(o)
    __radd__ = __add__

    def __sub__(self, o):
        return self.value - Payload.get(o)

    def __rsub__(self, o):
        return Payload.get(o) - self.value

    def __mul__(self, o):
        return self.value * Payload.get(o)
    __rmul__ = __mul__

    def __eq__(self, o):
        return self.value == Payload.get(o)

    def __hash__(self):
        return hash(self.value)

    def __repr__(self):
        return "P(%r)" % (self.value,)


def is_empty(p):
    if isinstance(p, Fiber):
        return all(is_empty(q) for q in p.payloads)
    if isinstance(p, Payload):
        return p.value == 0
    if isinstance(p, tuple):
        return all(is_empty(q) for q in p)
    return p == 0


class Recorder:
    """records observer events (Metrics / canvas) of one execution"""

    def __init__(self):
        self.events = []
        self.activities = []
        self.canvases = []
        self.updates = 0

    def ev(self, *a):
        self.events.append(a)


REC = Recorder()


class Fiber:
    def __init__(self, coords=None, payloads=None, default=None, depth_below=0):
        self.coords = list(coords or [])
        self.payloads = list(payloads or [])
        self.depth_below = depth_below      # number of fiber levels below (0: payloads are leaves)
        self._default = default

    def mkdefault(self):
        if self._default is not None:
            return self._default()
        if self.depth_below == 0:
            return Payload(0)
        return Fiber(depth_below=self.depth_below - 1)

    def lookup(self, c):
        for i, cc in enumerate(self.coords):
            if cc == c:
                return self.payloads[i]
        return None

    def insert(self, c, p):
        i = 0
        while i < len(self.coords) and self.coords[i] < c:
            i += 1
        self.coords.insert(i, c)
        self.payloads.insert(i, p)

    def __iter__(self):
        return iter(list(zip(self.coords, self.payloads)))

    def __len__(self):
        return len(self.coords)

    def getCoords(self):
        return list(self.coords)

    def nonempty(self):
        return [(c, p) for c, p in zip(self.coords, self.payloads) if not is_empty(p)]

    # ---- co-iteration (eager; the emitted code never mutates an operand of & or | while iterating it)
    def __and__(self, other):
        out = Fiber()
        for c, p in self.nonempty():
            q = other.lookup(c)
            if q is not None and not is_empty(q):
                out.coords.append(c)
                out.payloads.append((p, q))
        a, b = self, other
        out._default = lambda: (a.mkdefault(), b.mkdefault())
        return out

    def __or__(self, other):
        out = Fiber()
        cs = sorted(set(c for c, _ in self.nonempty()) | set(c for c, _ in other.nonempty()))
        for c in cs:
            p = self.lookup(c)
            q = other.lookup(c)
            pe = p is None or is_empty(p)
            qe = q is None or is_empty(q)
            mask = "AB" if (not pe and not qe) else ("A" if not pe else "B")
            out.coords.append(c)
            out.payloads.append((mask, self.mkdefault() if p is None else p, other.mkdefault() if q is None else q))
        a, b = self, other
        out._default = lambda: ("", a.mkdefault(), b.mkdefault())
        return out

    def __lshift__(self, other):
        out = Fiber()
        for c, q in other:
            p = self.lookup(c)
            if p is None:
                p = self.mkdefault()
                self.insert(c, p)
            out.coords.append(c)
            out.payloads.append((p, q))
        return out

    def iterRangeShapeRef(self, lo, hi, step=1):
        out = []
        c = lo
        while c < hi:
            p = self.lookup(c)
            if p is None:
                p = self.mkdefault()
                self.insert(c, p)
            out.append((c, p))
            c += step
        return out

    def getPayload(self, *coords, trace=None):
        f = self
        for c in coords:
            if not isinstance(f, Fiber):
                raise TypeError("getPayload too deep")
            p = f.lookup(c)
            if p is None:
                p = f.mkdefault()
            f = p
        return f

    def getPayloadRef(self, *coords, trace=None):
        f = self
        for c in coords:
            if not isinstance(f, Fiber):
                raise TypeError("getPayloadRef too deep")
            p = f.lookup(c)
            if p is None:
                p = f.mkdefault()
                f.insert(c, p)
            f = p
        return f

    def project(self, trans_fn=None, interval=None):
        items = []
        for c, p in zip(self.coords, self.payloads):
            nc = trans_fn(c)
            if interval is not None and not (interval[0] <= nc < interval[1]):
                continue
            items.append((nc, p))
        if len(items) > 1 and items[0][0] > items[-1][0]:
            items.reverse()
        out = Fiber([c for c, _ in items], [p for _, p in items], depth_below=self.depth_below)
        out._default = self._default
        return out

    def prune(self, trans_fn=None):
        out = Fiber(depth_below=self.depth_below)
        out._default = self._default
        for i, (c, p) in enumerate(zip(self.coords, self.payloads)):
            if trans_fn(i, c, p):
                out.coords.append(c)
                out.payloads.append(p)
        return out

    @staticmethod
    def fromLazy(it):
        if isinstance(it, Fiber):
            return it
        items = list(it)
        return Fiber([c for c, _ in items], [p for _, p in items])

    @staticmethod
    def intersection(*fibers, style=None):
        # coordinates present (non-empty) in every fiber; payload = flat tuple in argument order
        out = Fiber()
        first = fibers[0]
        for c, p in first.nonempty():
            ps = [p]
            ok = True
            for f in fibers[1:]:
                q = f.lookup(c)
                if q is None or is_empty(q):
                    ok = False
                    break
                ps.append(q)
            if ok:
                out.coords.append(c)
                # nest like a & (b & (c ...)) so that the payload pattern of the plain program applies
                nested = ps[-1]
                for x in reversed(ps[:-1]):
                    nested = (x, nested)
                out.payloads.append(nested)
        return out

    def trace(self, *a, **k):
        REC.ev("fiber.trace", a, tuple(sorted(k.items())))

    # ---- splitting at this level
    def _split_by(self, groups):
        up = Fiber(depth_below=self.depth_below + 1)
        for uc, items in groups:
            if not items:
                continue
            f = Fiber([c for c, _ in items], [p for _, p in items], depth_below=self.depth_below)
            up.coords.append(uc)
            up.payloads.append(f)
        return up

    def splitUniform(self, step, pre_halo=0, post_halo=0):
        if step <= 0:
            raise ValueError("splitUniform: non-positive step")
        groups = {}
        for c, p in zip(self.coords, self.payloads):
            # every partition j (a multiple of step, j >= 0) with j - pre_halo <= c < j + step + post_halo
            j = ((c - step - post_halo) // step + 1) * step
            jmax = ((c + pre_halo) // step) * step
            while j <= jmax:
                if j >= 0 and j - pre_halo <= c < j + step + post_halo:
                    groups.setdefault(j, []).append((c, p))
                j += step
        return self._split_by(sorted(groups.items()))

    def splitEqual(self, size, pre_halo=0, post_halo=0):
        if size <= 0:
            raise ValueError("splitEqual: non-positive size")
        groups = []
        items = list(zip(self.coords, self.payloads))
        for i in range(0, len(items), size):
            chunk = items[i:i + size]
            groups.append((chunk[0][0], chunk))
        return self._split_by(groups)

    def splitNonUniform(self, splits, pre_halo=0, post_halo=0):
        if isinstance(splits, Fiber):
            splits = splits.getCoords()
        splits = list(splits)
        groups = [(s, []) for s in splits]
        for c, p in zip(self.coords, self.payloads):
            idx = None
            for i, s in enumerate(splits):
                if s <= c:
                    idx = i
            if idx is not None:
                groups[idx][1].append((c, p))
            # halos: also the partitions that reach c
            for i, s in enumerate(splits):
                if i == idx:
                    continue
                end = splits[i + 1] if i + 1 < len(splits) else None
                if s - pre_halo <= c < s and pre_halo:
                    groups[i][1].append((c, p))
                elif end is not None and end <= c < end + post_halo and post_halo:
                    groups[i][1].append((c, p))
        return self._split_by(groups)


def _map_at_depth(f, depth, fn):
    if depth == 0:
        return fn(f)
    out = Fiber(depth_below=None)
    out.coords = list(f.coords)
    out.payloads = [_map_at_depth(p, depth - 1, fn) for p in f.payloads]
    return out


def _fix_depths(f, n):
    if not isinstance(f, Fiber):
        return
    f.depth_below = n - 1
    for p in f.payloads:
        _fix_depths(p, n - 1)


class Tensor:
    def __init__(self, rank_ids=None, name="", shape=None):
        self.rank_ids = list(rank_ids)
        self.name = name
        self.shape = shape
        if self.rank_ids:
            self.root = Fiber(depth_below=len(self.rank_ids) - 1)
        else:
            self.root = Payload(0)

    @staticmethod
    def fromFiber(rank_ids=None, fiber=None, name=""):
        t = Tensor.__new__(Tensor)
        t.rank_ids = list(rank_ids)
        t.name = name
        t.shape = None
        t.root = fiber
        if not isinstance(fiber, Fiber):
            raise TypeError("fromFiber: not a fiber")
        if _depth(fiber) is not None and _depth(fiber) != len(rank_ids):
            raise ValueError("fromFiber: %d rank ids for a fiber of depth %d" % (len(rank_ids), _depth(fiber)))
        _fix_depths(fiber, len(rank_ids))
        return t

    @staticmethod
    def fromPoints(rank_ids, points, name=""):
        t = Tensor(rank_ids=rank_ids, name=name)
        for coords, v in sorted(points.items()):
            if v == 0:
                continue
            if not rank_ids:
                t.root = Payload(v)
                continue
            f = t.root
            for c in coords[:-1]:
                f = f.getPayloadRef(c)
            f.getPayloadRef(coords[-1]).value = v
        return t

    def points(self):
        out = {}

        def rec(f, pre):
            if isinstance(f, Payload):
                if f.value != 0:
                    out[pre] = f.value
                return
            if not isinstance(f, Fiber):
                if f != 0:
                    out[pre] = f
                return
            for c, p in zip(f.coords, f.payloads):
                rec(p, pre + (c,))
        rec(self.root, ())
        return out

    def getRoot(self):
        return self.root

    def getRankIds(self):
        return list(self.rank_ids)

    def setRankIds(self, rank_ids=None):
        if len(rank_ids) != len(self.rank_ids):
            raise ValueError("setRankIds arity %r vs %r" % (rank_ids, self.rank_ids))
        self.rank_ids = list(rank_ids)
        return self

    def _copy(self):
        return copy.deepcopy(self)

    def swizzleRanks(self, rank_ids=None):
        if sorted(rank_ids) != sorted(self.rank_ids):
            raise ValueError("swizzleRanks %r of %r" % (rank_ids, self.rank_ids))
        pts = self.points()
        perm = [self.rank_ids.index(r) for r in rank_ids]
        npts = {tuple(k[i] for i in perm): v for k, v in pts.items()}
        return Tensor.fromPoints(list(rank_ids), npts, self.name)

    def _split(self, depth, fn):
        if not (0 <= depth < len(self.rank_ids)):
            raise ValueError("split depth %d out of range for %r" % (depth, self.rank_ids))
        t = self._copy()
        t.root = _map_at_depth(t.root, depth, fn)
        r = self.rank_ids[depth]
        t.rank_ids = self.rank_ids[:depth] + [r + ".1", r + ".0"] + self.rank_ids[depth + 1:]
        _fix_depths(t.root, len(t.rank_ids))
        return t

    def splitUniform(self, step, depth=0, pre_halo=0, post_halo=0):
        return self._split(depth, lambda f: f.splitUniform(step, pre_halo, post_halo))

    def splitEqual(self, size, depth=0, pre_halo=0, post_halo=0):
        return self._split(depth, lambda f: f.splitEqual(size, pre_halo, post_halo))

    def splitNonUniform(self, splits, depth=0, pre_halo=0, post_halo=0):
        return self._split(depth, lambda f: f.splitNonUniform(splits, pre_halo, post_halo))

    def flattenRanks(self, depth=0, levels=1, coord_style="tuple"):
        if not (0 <= depth and depth + levels < len(self.rank_ids)):
            raise ValueError("flattenRanks depth/levels out of range")
        if coord_style != "tuple":
            raise ValueError("flattenRanks: only coord_style tuple is modelled")
        t = self._copy()

        def flat(f):
            items = []

            def rec(g, pre, lv):
                for c, p in zip(g.coords, g.payloads):
                    cc = pre + (c if isinstance(c, tuple) else (c,))
                    if lv == 0:
                        items.append((cc, p))
                    else:
                        rec(p, cc, lv - 1)
            rec(f, (), levels)
            items.sort(key=lambda x: x[0])
            return Fiber([c for c, _ in items], [p for _, p in items])
        t.root = _map_at_depth(t.root, depth, flat)
        rs = self.rank_ids
        t.rank_ids = rs[:depth] + ["".join(rs[depth:depth + levels + 1])] + rs[depth + levels + 1:]
        t._flat_arity = getattr(self, "_flat_arity", {}).copy()
        _fix_depths(t.root, len(t.rank_ids))
        return t

    def mergeRanks(self, depth=0, levels=1, coord_style="absolute"):
        if not (0 <= depth and depth + levels < len(self.rank_ids)):
            raise ValueError("mergeRanks depth/levels out of range")
        if coord_style != "absolute":
            raise ValueError("mergeRanks: only coord_style absolute is modelled")
        t = self._copy()

        def merge(f):
            acc = {}

            def rec(g, lv):
                for c, p in zip(g.coords, g.payloads):
                    if lv == 0:
                        if c in acc:
                            acc[c] = _merge_payload(acc[c], p)
                        else:
                            acc[c] = p
                    else:
                        rec(p, lv - 1)
            rec(f, levels)
            ks = sorted(acc)
            return Fiber(ks, [acc[k] for k in ks])
        t.root = _map_at_depth(t.root, depth, merge)
        rs = self.rank_ids
        t.rank_ids = rs[:depth] + [rs[depth + levels]] + rs[depth + levels + 1:]
        _fix_depths(t.root, len(t.rank_ids))
        return t

    def unflattenRanks(self, depth=0, levels=1):
        if not (0 <= depth < len(self.rank_ids)):
            raise ValueError("unflattenRanks depth out of range")
        t = self._copy()

        def unflat(f):
            up = Fiber()
            for c, p in zip(f.coords, f.payloads):
                if not isinstance(c, tuple) or len(c) < levels + 1:
                    raise ValueError("unflattenRanks: coordinate %r is not a tuple of >= %d" % (c, levels + 1))
                g = up
                if len(c) == levels + 1:
                    heads, last = c[:-1], c[-1]
                else:
                    heads, last = c[:levels], c[levels:]
                for x in heads:
                    q = g.lookup(x)
                    if q is None:
                        q = Fiber()
                        g.insert(x, q)
                    g = q
                g.insert(last, p)
            return up
        t.root = _map_at_depth(t.root, depth, unflat)
        rs = self.rank_ids
        t.rank_ids = rs[:depth] + [rs[depth] + "." + str(i) for i in range(levels + 1)] + rs[depth + 1:]
        _fix_depths(t.root, len(t.rank_ids))
        return t


def _depth(f):
    """number of fiber levels of a non-empty tree, None if it cannot be told (empty fiber)"""
    d = 0
    while isinstance(f, Fiber):
        d += 1
        if not f.payloads:
            return None
        f = f.payloads[0]
    return d


def _merge_payload(a, b):
    if isinstance(a, Payload):
        return Payload(a.value + b.value)
    out = Fiber(list(a.coords), list(a.payloads))
    for c, p in zip(b.coords, b.payloads):
        q = out.lookup(c)
        if q is None:
            out.insert(c, p)
        else:
            i = out.coords.index(c)
            out.payloads[i] = _merge_payload(q, p)
    return out


# ------------------------------------------------------------------------------------------------
# observers: inert stand-ins that record what happens (C11, C12, C14, C16)

class _Canvas:
    def __init__(self, tensors):
        self.tensors = tensors

    def addActivity(self, *points, spacetime=None, **kw):
        REC.activities.append((self, points, spacetime))


def createCanvas(*tensors):
    c = _Canvas(tensors)
    REC.canvases.append(c)
    return c


def displayCanvas(canvas):
    REC.ev("displayCanvas")


class _Metrics:
    def beginCollect(self, prefix=None):
        REC.ev("beginCollect", prefix)

    def endCollect(self):
        REC.ev("endCollect")

    def trace(self, rank, type_=None, consumable=None):
        REC.ev("trace", rank, type_, consumable)

    def registerRank(self, rank):
        REC.ev("registerRank", rank)

    def matchRanks(self, a, b):
        REC.ev("matchRanks", a, b)

    def associateShape(self, rank, shape):
        REC.ev("associateShape", rank)

    def getIter(self):
        return []

    def consumeTrace(self, rank, type_):
        REC.ev("consumeTrace", rank, type_)
        return ("trace", rank, type_)

    def dump(self):
        REC.ev("dump")
        return _AnyDict()


class _AnyDict(dict):
    """metrics dumps: every key exists; leaves are distinct numbers"""
    _n = [1000]

    def __missing__(self, k):
        if k in ("Compute",):
            v = _AnyDict()
        else:
            _AnyDict._n[0] += 7
            v = _AnyDict._n[0]
        self[k] = v
        return v


class _Traffic:
    def filterTrace(self, src, by, dst):
        REC.ev("filterTrace", src, by, dst)

    def buffetTraffic(self, bindings, formats, traces, capacity, line, rank_map=None):
        REC.ev("buffetTraffic", dict(traces))
        return _TrafficResult()

    def cacheTraffic(self, bindings, formats, traces, capacity, line, rank_map=None):
        REC.ev("cacheTraffic", dict(traces))
        return _TrafficResult()


class _TrafficResult:
    def __getitem__(self, i):
        return _AnyDictDeep()


class _AnyDictDeep(dict):
    def __missing__(self, k):
        v = _AnyDictDeep2()
        self[k] = v
        return v


class _AnyDictDeep2(dict):
    def __missing__(self, k):
        _AnyDict._n[0] += 11
        self[k] = _AnyDict._n[0]
        return self[k]


class _Compute:
    def numIters(self, *a):
        REC.ev("numIters", a)
        _AnyDict._n[0] += 13
        return _AnyDict._n[0]

    def numSwaps(self, *a):
        REC.ev("numSwaps")
        _AnyDict._n[0] += 17
        return _AnyDict._n[0]


class Format:
    def __init__(self, tensor, spec):
        self.tensor, self.spec = tensor, spec


class _Intersector:
    def __init__(self):
        self.fed = 0
        REC.ev("newIntersector", type(self).__name__, id(self))

    def addTraces(self, *traces):
        self.fed += 1
        REC.ev("addTraces", id(self))

    def getNumIntersects(self):
        REC.ev("getNumIntersects", id(self))
        _AnyDict._n[0] += 19
        return _AnyDict._n[0]


class LeaderFollowerIntersector(_Intersector):
    pass


class SkipAheadIntersector(_Intersector):
    pass


class TwoFingerIntersector(_Intersector):
    pass


def base_globals():
    return {"Tensor": Tensor, "Fiber": Fiber, "Metrics": _Metrics(), "Traffic": _Traffic(), "Compute": _Compute(),
            "Format": Format, "LeaderFollowerIntersector": LeaderFollowerIntersector,
            "SkipAheadIntersector": SkipAheadIntersector, "TwoFingerIntersector": TwoFingerIntersector,
            "createCanvas": createCanvas, "displayCanvas": displayCanvas}


def reset_recorder():
    global REC
    REC = Recorder()
    return REC
