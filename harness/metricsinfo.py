"""What the metrics-mode checks (C12, C14) read from a real metrics compilation, plus the harness's own
independent reading of the architecture YAML (instance counts, frequencies, bandwidths)."""
import re
import export


def arch_components(d):
    """{config: {component name: dict(instances, cls, attrs, freq)}} straight from the raw YAML"""
    res = {}
    for cfg, roots in (d.get("architecture") or {}).items():
        comps = {}
        if not roots:
            res[cfg] = comps
            continue
        freq = (roots[0].get("attributes") or {}).get("clock_frequency")

        def walk(level):
            m = re.fullmatch(r"\s*([A-Za-z_][A-Za-z0-9_]*)\s*\[0\.\.\s*([0-9]+)\s*\]\s*", level["name"])
            inst = int(m.group(2)) + 1 if m else 1
            for loc in level.get("local") or []:
                comps[loc["name"]] = dict(instances=inst, cls=str(loc["class"]).lower(), attrs=loc.get("attributes") or {}, freq=freq)
            for sub in level.get("subtree") or []:
                walk(sub)
        walk(roots[0])
        res[cfg] = comps
    return res


def arch_trees(d):
    """{config: the level tree as written, in the shape of the Lean model Arch.Tree (level name split into bare name and N)}"""
    def walk(level):
        m = re.fullmatch(r"\s*([A-Za-z_][A-Za-z0-9_]*)\s*\[0\.\.\s*([0-9]+)\s*\]\s*", str(level.get("name")))
        return {"name": m.group(1) if m else str(level.get("name")).strip(), "last": int(m.group(2)) if m else None,
                "locals": [str(l["name"]) for l in level.get("local") or []], "subs": [walk(s) for s in level.get("subtree") or []]}
    res = {}
    for cfg, roots in (d.get("architecture") or {}).items():
        if roots:
            try:
                res[cfg] = walk(roots[0])
            except Exception:
                pass
    return res


def config_of(d, einsum):
    for b in (d.get("bindings") or {}).get(einsum, []):
        if "config" in b:
            return b["config"]
    return None


def fusion_obs(d):
    """per Einsum: what Fusion.add_einsum looks at (loop ranks, space ranks, configuration, functional components with a
    non-empty binding list), read from the specification (loop ranks through the Program IR, never through Fusion/Hardware)"""
    import pool
    lr = pool.loop_ranks(d)
    if lr is None:
        return None
    arch = arch_components(d)
    obs = []
    for name in lr:
        st = ((d.get("mapping") or {}).get("spacetime") or {}).get(name)
        if st is None:
            return None
        space = [str(x).split(".")[0] for x in st.get("space") or []]
        cfg = config_of(d, name)
        comps = []
        for b in (d.get("bindings") or {}).get(name, []):
            if "component" not in b:
                continue
            info = arch.get(cfg, {}).get(b["component"])
            if info is None:
                return None
            if info["cls"] in ("compute", "intersector", "sequencer") and b.get("bindings"):
                comps.append(b["component"])
        obs.append({"einsum": name, "loop": list(lr[name]), "space": space, "config": cfg, "comps": sorted(set(comps))})
    return obs


def time_info(hf, d):
    """blocks, registered components, the metrics["time"] expression(s) and every component-time assignment"""
    fusion = hf.fusion
    blocks = [list(b) for b in fusion.get_blocks()]
    comps = {e: list(fusion.get_components(e)) for b in blocks for e in b}
    totals, comp_times = [], []

    def visit(s):
        n = type(s).__name__
        if n == "SBlock":
            for x in s.stmts:
                visit(x)
        elif n == "SFor":
            visit(s.stmt)
        elif n == "SIf":
            visit(s.if_[1])
            for _, b in s.elifs:
                visit(b)
            if s.else_ is not None:
                visit(s.else_)
        elif n == "SAssign" and type(s.assn).__name__ == "AAccess":
            a = s.assn
            if type(a.ind).__name__ == "EString" and a.ind.string == "time":
                if type(a.obj).__name__ == "EVar" and a.obj.name == "metrics":
                    totals.append(export.expr(s.expr))
                else:
                    path = []
                    o = a.obj
                    while type(o).__name__ == "EAccess" and type(o.ind).__name__ == "EString":
                        path.append(o.ind.string)
                        o = o.obj
                    if type(o).__name__ == "EVar" and o.name == "metrics" and len(path) == 2:
                        comp_times.append(dict(einsum=path[1], comp=path[0], text=s.expr.gen(), expr=export.expr(s.expr)))
    visit(hf.hifiber)
    # what the real Hardware holds: for every Einsum and every component bound there, the instance count of the component
    # object the Collector divides by (public API: Hardware.get_component(name, einsum).get_num_instances())
    inst = {}
    try:
        for e, cs in hf.hardware.bindings.get_bindings().items():
            inst[e] = {}
            for c in cs:
                try:
                    inst[e][c] = hf.hardware.get_component(c, e).get_num_instances()
                except KeyError:
                    pass
    except Exception:
        inst = None
    return dict(blocks=blocks, comps=comps, totals=totals, comp_times=comp_times, obs=fusion_obs(d), inst=inst, arch=arch_trees(d))
