"""C09 — printed text denotes the syntax tree the compiler built.
Theorem: Props/C09.gen_derives (every expression tree with PrecOK: Python's grammar derives norm(tree) from
the printed tokens).  Tie per emitted program: Lean's printer reproduces the text from the compiler's tree;
PrecOK holds for every expression of the tree (the obligation that decides the property); CPython's
tokenizer agrees with Lean's token model; CPython's parse of the text equals norm(tree) (direct observation,
also validates the grammar transcription).  The coordinate-expression builder is driven separately on
generated affine expressions."""
import ast, io, json, random, tokenize
import common, pool, specs, export, c06


def py_tokens(text):
    out = []
    for t in tokenize.generate_tokens(io.StringIO(text).readline):
        if t.type == tokenize.NAME:
            out.append("N:" + t.string)
        elif t.type == tokenize.NUMBER:
            out.append("L:" + t.string)
        elif t.type == tokenize.STRING:
            out.append("S:" + ast.literal_eval(t.string))
        elif t.type == tokenize.OP:
            out.append("O:" + t.string)
    return out


def check_program(ctx, r, a):
    """r: record with text/tree; a: Lean's answer to `prec`"""
    ok_tok = a["toks"] == r["pytoks"]
    ctx.ob(a["ok"]); ctx.ob(ok_tok); ctx.ob(a.get("norm_eq", False))
    ctx.stat("expressions", a["nexprs"])
    if a["ok"] and ok_tok and a.get("norm_eq"):
        return
    # failing-input search: the tree Python reads vs the tree that was built
    diff = a.get("diff")
    found = (not a.get("norm_eq", True)) and diff is not None
    reason = []
    if not a["ok"]:
        reason.append("PrecOK fails for %r" % a["bad"])
    if not a.get("norm_eq", True):
        reason.append("Python reads %r where the tree says %r" % ((diff or {}).get("python"), (diff or {}).get("tree")))
    if not ok_tok:
        i = next((k for k, (x, y) in enumerate(zip(a["toks"], r["pytoks"])) if x != y), min(len(a["toks"]), len(r["pytoks"])))
        reason.append("token %d: model %r vs CPython %r" % (i, a["toks"][i:i + 3], r["pytoks"][i:i + 3]))
    case = {"predicates": set(), "signature": None}
    ctx.violation(dict(kind="tree-vs-text", yaml=r.get("yaml"), mode=r.get("mode"), hashseed=r.get("hashseed"), text=r["text"], reason="; ".join(reason),
                       diff=diff, obligation="PrecOK tree (C09.gen_derives) / norm tree = ast.parse(text) / toks tree = tokenize(text)"), found)


def sympy_json(e):
    """the SymPy tree as the model reads it: ["sym", name] | ["int", i] | ["rat", p, q] | ["add", args...] | ["mul", args...]"""
    from sympy import Symbol, Integer, Rational, Add, Mul
    if isinstance(e, Symbol):
        return ["sym", str(e)]
    if isinstance(e, Integer):
        return ["int", int(e)]
    if isinstance(e, Rational):
        return ["rat", int(e.p), int(e.q)]
    if isinstance(e, Add):
        return ["add"] + [sympy_json(a) for a in e.args]
    if isinstance(e, Mul):
        return ["mul"] + [sympy_json(a) for a in e.args]
    return ["other", str(type(e).__name__)]


def recorded_build_expr_calls(rng, n):
    """every (SymPy expression, tree) pair that CoordAccess.build_expr handles while the real compiler translates generated index-math
    specifications (the builder is wrapped in this process only; no source change)"""
    import gens
    from teaal.trans.coord_access import CoordAccess
    orig = CoordAccess.__dict__["build_expr"]
    calls = []

    def rec(sexpr):
        t = orig.__func__(sexpr)
        calls.append((sexpr, t))
        return t
    CoordAccess.build_expr = staticmethod(rec)
    try:
        for i in range(n):
            g = [gens.g4, gens.g4c, gens.g4p, gens.g4n][i % 4]
            specs.compile_spec(gens.to_yaml_dict(g(rng)), "plain")
    finally:
        CoordAccess.build_expr = orig
    seen, out = set(), []
    for e, t in calls:
        key = str(e)
        if key in seen:
            continue
        seen.add(key)
        out.append(("ok", key, t, sympy_json(e)))
    return out


def build_expr_cases(rng, n):
    """trees from CoordAccess.build_expr on random affine expressions (through sympy, as the compiler does)"""
    from sympy import symbols, Rational, Integer
    from teaal.trans.coord_access import CoordAccess
    names = ["q", "s", "w0", "k1", "m", "n2"]
    out = []
    for _ in range(n):
        k = rng.randint(1, 3)
        vs = rng.sample(names, k)
        e = Integer(0)
        for v in vs:
            num = rng.choice([-3, -2, -1, 1, 1, 2, 3, 4, 5])
            den = rng.choice([1, 1, 1, 2, 3, 4])
            e = e + Rational(num, den) * symbols(v)
        if rng.random() < 0.2:
            e = e + rng.choice([-2, -1, 1, 3])
        try:
            t = CoordAccess.build_expr(e)
        except Exception as ex:
            out.append(("error", str(e), "%s: %s" % (type(ex).__name__, ex), None))
            continue
        out.append(("ok", str(e), t, sympy_json(e)))
    return out


def run(ctx):
    ctx.rule = ("every emitted program of: corpus (all modes), G1-G5/G4b (plain; G1-G3 also spacetime), G7 (metrics); plus trees from CoordAccess.build_expr on random affine "
                "expressions with integer/rational coefficients; non-trivial = program with at least one binary operator; distinct = distinct text")
    ctx.trusted = ["Lean kernel; Props/C09.gen_derives", "unambiguity of Python's grammar (the derivation built by the theorem is the parse CPython makes); "
                   "the transcription HF.Derives of that grammar and the token model HF.toks are compared with CPython's ast/tokenize on every text",
                   "statement/indentation structure is compared through CPython's parse only (no theorem)"]
    k = 1 if ctx.tier == "quick" else 6
    items = [dict(gen="corpus", count=0, modes=["plain", "spacetime", "metrics"]),
             dict(gen="g1", count=30 * k, modes=["plain", "spacetime"]), dict(gen="g2", count=40 * k, modes=["plain", "spacetime"]),
             dict(gen="g3", count=30 * k, modes=["plain", "spacetime"]), dict(gen="g4", count=60 * k, modes=["plain"]),
             dict(gen="g4b", count=30 * k, modes=["plain"]), dict(gen="g4c", count=20 * k, modes=["plain"]), dict(gen="g5", count=15 * k, modes=["plain"])]
    if c06.has_g7():
        items.append(dict(gen="g7", count=60 * k, modes=["metrics"]))
    recs = pool.collect(ctx, items)
    reqs, metas = [], []
    for r in recs:
        if not r["ok"]:
            ctx.stat(("rejected_" if r["err_kind"] == "ValueError" else "compile_crash_") + str(r["err_kind"])); continue
        ctx.case([r["text"]], nontrivial=any(op in r["text"] for op in (" + ", " * ", " / ", " - ", " & ", " | ")))
        ctx.stat("mode_" + r["mode"])
        if "tree" not in r:
            ctx.ob(False)
            ctx.violation(dict(kind="unexportable-tree", yaml=r["yaml"], text=r["text"], reason=r.get("tree_error")), False); continue
        try:
            py = export.py_program(r["text"])
            r["pytoks"] = py_tokens(r["text"])
        except (SyntaxError, export.ExportError, tokenize.TokenError) as e:
            ctx.ob(False)
            ctx.violation(dict(kind="text-not-python", yaml=r["yaml"], mode=r["mode"], text=r["text"], reason="%s: %s" % (type(e).__name__, e)), True); continue
        reqs.append({"op": "prec", "tree": r["tree"], "py": py}); metas.append(r)
    for r, a in zip(metas, common.lean_batch(reqs)):
        if "error" in a:
            raise common.InternalError("lean: " + a["error"])
        check_program(ctx, r, a)
        if len(ctx.samples) < 2 and " / " in r["text"]:
            ctx.sample({"einsum": r["yaml"]["einsum"]["expressions"], "line": [l for l in r["text"].split("\n") if " / " in l][:1]})
    # the coordinate-expression builder
    rng = random.Random(ctx.seed * 977 + 3)
    reqs, metas = [], []
    breqs, bmetas = [], []
    for status, src, t, sj in build_expr_cases(rng, 300 * k) + recorded_build_expr_calls(rng, 60 * k):
        if status != "ok":
            ctx.stat("build_expr_rejected"); continue
        tree = export.expr(t)
        text = t.gen()
        ctx.case([text], nontrivial=True); ctx.stat("build_expr")
        try:
            py = export.py_expr(ast.parse(text, mode="eval").body)
        except (SyntaxError, export.ExportError) as e:
            ctx.ob(False)
            ctx.violation(dict(kind="build-expr-not-python", sympy=src, text=text, reason=str(e)), True); continue
        reqs.append({"op": "prec_expr", "tree": tree, "py": py}); metas.append((src, text))
        breqs.append({"op": "build_expr", "tree": tree, "sympy": sj}); bmetas.append((src, text, sj))
    for (src, text), a in zip(metas, common.lean_batch(reqs)):
        if "error" in a:
            raise common.InternalError("lean: " + a["error"])
        ok = a["ok"] and a["norm_eq"] and a["text"] == text
        ctx.ob(a["ok"]); ctx.ob(a["norm_eq"]); ctx.ob(a["text"] == text)
        if len(ctx.samples) < 4:
            ctx.sample({"sympy": src, "printed": text})
        if not ok:
            # semantic confirmation: evaluate both readings
            ctx.violation(dict(kind="build-expr", sympy=src, text=text, lean=a,
                               reason="CoordAccess.build_expr(%s) prints %r which does not denote the tree it built" % (src, text)), not a["norm_eq"])
    # the builder itself against its Lean model (C09.build, C09.build_precok: every tree built from an expression of the SymPy shape is PrecOK)
    for (src, text, sj), a in zip(bmetas, common.lean_batch(breqs)):
        if "error" in a:
            raise common.InternalError("lean: " + a["error"])
        if not a["in_shape"]:
            ctx.stat("build_expr_outside_sympy_shape"); continue
        ok = a.get("built") and a.get("equal") and a.get("prec_ok")
        ctx.ob(bool(ok)); ctx.stat("build_expr_model")
        if not ok:
            ctx.violation(dict(kind="build-expr-model", sympy=src, sympy_tree=sj, text=text, lean=a,
                               obligation="C09.build (model of CoordAccess.build_expr, Props/C09Build) = the tree the real builder constructs",
                               reason="CoordAccess.build_expr(%s) builds %r, the model builds %r" % (src, text, a.get("model_text"))), False)


def replay(ctx, path):
    rep = json.load(open(path))
    if rep.get("kind") not in ("tree-vs-text", "unexportable-tree"):
        print("replay kind not supported"); return 2
    c = specs.compile_spec(rep["yaml"], rep["mode"])
    if not c.ok:
        print("specification no longer compiles:", c.err_kind); return ctx.finish()
    r = dict(yaml=rep["yaml"], mode=rep["mode"], text=c.text, tree=c.tree(), pytoks=py_tokens(c.text))
    a = common.lean_batch([{"op": "prec", "tree": r["tree"], "py": export.py_program(c.text)}])[0]
    check_program(ctx, r, a)
    return ctx.finish()
