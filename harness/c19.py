"""C19 — omitted mapping means the canonical default.
Theorem: Props/C19.default_order (every Einsum, every set of single-rank partitionings, every iteration
order of that set).  Tie: (a) the real compiler on the specification with a mapping section omitted vs with
the default written out by the harness's own reading of the property statement: texts must be identical;
(b) the Lean model of the default loop order, run under the implementation's own iteration order of its
partitioning set, must equal LoopOrder.get_ranks(), and equal the canonical order."""
import copy, json, random, re
import common, specs, gens


def appearance_ranks(e):
    out = [v.upper() for idx in e["oidx"] for _, v in idx]
    seen = []
    for t in e["terms"]:
        for f in t["factors"]:
            if f[0] == "t":
                for idx in f[2]:
                    for _, v in idx:
                        if v.upper() not in seen:
                            seen.append(v.upper())
    return out, seen


def first_term_ranks(e):
    term = []
    for f in e["terms"][0]["factors"]:
        if f[0] == "t":
            for idx in f[2]:
                for _, v in idx:
                    term.append(v.upper())
    return term


def times_first(e):
    """the Einsum with its product terms moved before its take terms (the order the implementation scans)"""
    e2 = dict(e)
    e2["terms"] = [t for t in e["terms"] if t["kind"] == "times"] + [t for t in e["terms"] if t["kind"] == "take"]
    return e2


def take_before_product(e):
    kinds = [t["kind"] for t in e["terms"]]
    return "take" in kinds and "times" in kinds and kinds.index("take") < len(kinds) - 1 - kinds[::-1].index("times")


def levels(r, stack):
    n = len(stack)
    return [r + str(j) for j in range(n, -1, -1)] if n else [r]


def default_loop_order(case, e):
    """the property's wording, computed from the specification alone"""
    out, seen = appearance_ranks(e)
    base = out + [r for r in seen if r not in out]
    parts = ((case["mapping"].get("partitioning") or {}).get(e["out"]) or {})
    res = []
    for r in base:
        res += levels(r, parts.get(r, []))
    return res


def has_flatten(case):
    for _, parts in (case["mapping"].get("partitioning") or {}).items():
        if any(k.startswith("(") for k in parts):
            return True
    return False


def variants(case):
    """(what, spec with the section omitted, spec with the default written out) for sections that are absent"""
    d0 = gens.to_yaml_dict(case)
    m = d0.get("mapping") or {}
    res = []
    # rank-order
    if "rank-order" not in m:
        d1 = copy.deepcopy(d0)
        d1["mapping"]["rank-order"] = {t: list(rs) for t, rs in case["decl"].items()}
        res.append(("rank-order", d0, d1))
    else:
        d1 = copy.deepcopy(d0)
        for t, rs in case["decl"].items():
            d1["mapping"]["rank-order"].setdefault(t, list(rs))
        res.append(("rank-order-partial", d0, d1))
    # loop-order: drop it for the Einsums that have one equal to default?  compare omitted vs explicit default
    dd = copy.deepcopy(d0)
    lo = dd["mapping"].pop("loop-order", None) or {}
    d1 = copy.deepcopy(dd)
    d1["mapping"]["loop-order"] = {e["out"]: default_loop_order(case, e) for e in case["eins"]}
    res.append(("loop-order", dd, d1))
    # partitioning omitted vs explicitly empty
    if "partitioning" not in m:
        d1 = copy.deepcopy(d0)
        d1["mapping"]["partitioning"] = {e["out"]: {} for e in case["eins"]}
        res.append(("partitioning", d0, d1))
    # whole mapping omitted vs fully explicit default
    if not m.get("partitioning") and "spacetime" not in m:
        da = copy.deepcopy(d0); da["mapping"] = {}
        db = copy.deepcopy(d0)
        db["mapping"] = {"rank-order": {t: list(rs) for t, rs in case["decl"].items()},
                         "loop-order": {e["out"]: default_loop_order(case, e) for e in case["eins"]},
                         "partitioning": {e["out"]: {} for e in case["eins"]}}
        res.append(("whole-mapping", da, db))
    return res


def impl_default(d, case):
    """LoopOrder.get_ranks() and the iteration order of the partitioning set, per Einsum (loop order omitted)"""
    from teaal.parse import Einsum, Mapping
    from teaal.ir.program import Program
    dd = copy.deepcopy(d)
    dd["mapping"].pop("loop-order", None)
    p = Program(Einsum(copy.deepcopy(dd)), Mapping(copy.deepcopy(dd)))
    res = []
    for i, e in enumerate(case["eins"]):
        p.add_einsum(i)
        part = p.get_partitioning()
        sched = [list(x) for x in part.get_all_parts()]
        res.append(dict(ranks=list(p.get_loop_order().get_ranks()), sched=sched))
        p.reset()
    return res


def run(ctx):
    ctx.rule = ("generated G1 (plain Einsums), G2 (shape-partitioned), G3 (occupancy-partitioned; flatten variants only in the text differential of rank-order), "
                "G5 (cascades), G4n/G4q/G4p (affine accesses: strides, dilations, two reduction variables, negative coefficients; unpartitioned and shape-partitioned with a follower); each compared omitted-vs-explicit for every absent mapping section; non-trivial = Einsum with >= 2 ranks; distinct = distinct specification")
    ctx.trusted = ["Lean kernel; Props/C19.default_order", "the harness's own default (c19.default_loop_order) is written from the property statement",
                   "model (DefaultOrder.implOrder) = LoopOrder.__default_loop_order is sampled; flatten() tuples are outside the Lean model (text differential only)"]
    rng = random.Random(ctx.seed * 104729 + 19)
    k = 1 if ctx.tier == "quick" else 8
    cases = []
    for _ in range(60 * k):
        cases.append(gens.g1(rng))
    for _ in range(60 * k):
        cases.append(gens.g2(rng, order=rng.choice(["perm", "levelsorted", "none"])))
    for _ in range(6 * k):
        cases.append(gens.g2deep(rng, order="none"))
    for _ in range(30 * k):
        cases.append(gens.g3(rng))
    for _ in range(20 * k):
        cases.append(gens.g5(rng))
    # affine accesses (index variables introduced inside an index expression, with and without coefficients), loop order omitted
    for i in range(40 * k):
        c = [gens.g4n, gens.g4q, gens.g4p][i % 3](rng)
        c["mapping"].pop("loop-order", None)
        cases.append(c)
    # multi-term Einsums whose terms introduce the contracted ranks in different orders
    for _ in range(30 * k):
        c = gens.g1(rng, allow_take=False)
        e = c["eins"][0]
        if len(e["terms"]) > 1:
            for t in e["terms"][1:]:
                rng.shuffle(t["factors"])
        cases.append(c)
    reqs, metas = [], []
    for case in cases:
        flat = has_flatten(case)
        vs = variants(case)
        nr = max(len(set(appearance_ranks(e)[0] + appearance_ranks(e)[1])) for e in case["eins"])
        ctx.case(gens.to_yaml_dict(case), nontrivial=nr >= 2)
        for what, da, db in vs:
            if flat and what.startswith(("loop-order", "whole")):
                continue
            ca, cb = specs.compile_spec(da, "plain"), specs.compile_spec(db, "plain")
            if not ca.ok or not cb.ok:
                if ca.ok != cb.ok:
                    ctx.ob(False)
                    ctx.violation(dict(kind="default-differential", section=what, omitted=da, explicit=db,
                                       reason="one of the two specifications is rejected: omitted -> %s, explicit -> %s" % (ca.err_kind, cb.err_kind)), True)
                else:
                    ctx.stat("both_rejected_" + str(ca.err_kind))
                continue
            same = ca.text == cb.text
            ctx.ob(same)
            ctx.stat("differential_" + what)
            if not same and what in ("loop-order", "whole-mapping") and any(take_before_product(e) for e in case["eins"]):
                # known finding?  the implementation's default is the canonical default of the Einsum with product terms first
                dc = copy.deepcopy(db)
                dc["mapping"]["loop-order"] = {e["out"]: default_loop_order(case, times_first(e)) for e in case["eins"]}
                cc = specs.compile_spec(dc, "plain")
                f = ctx.match_finding({"predicates": {"take_term_before_product_term"},
                                       "signature": "default-order-follows-first-product-term" if (cc.ok and cc.text == ca.text) else "other"})
                if f:
                    ctx.known(f, f["what"]); continue
            if not same:
                ctx.violation(dict(kind="default-differential", section=what, omitted=da, explicit=db, text_omitted=ca.text, text_explicit=cb.text,
                                   reason="the text emitted with %s omitted differs from the text with the default written out" % what), True)
            elif len(ctx.samples) < 3 and what == "loop-order":
                ctx.sample({"einsum": da["einsum"]["expressions"], "partitioning": da["mapping"].get("partitioning"), "default_loop_order": db["mapping"]["loop-order"]})
        if flat:
            continue
        d = gens.to_yaml_dict(case)
        try:
            impl = impl_default(d, case)
        except Exception as ex:
            ctx.stat("impl_default_" + type(ex).__name__)
            continue
        for e, im in zip(case["eins"], impl):
            out, _ = appearance_ranks(e)
            parts = ((case["mapping"].get("partitioning") or {}).get(e["out"]) or {})
            plist = [[r, levels(r, st)] for r, st in parts.items() if not st[0].startswith("follow")]
            sched = []
            for pr in im["sched"]:
                if len(pr) == 1 and pr[0] in parts and not parts[pr[0]][0].startswith("follow"):
                    sched.append([pr[0], levels(pr[0], parts[pr[0]])])
            reqs.append({"op": "default_order", "out": out, "term": first_term_ranks(e), "sched": sched, "parts": plist})
            metas.append((case, e, im))
    for (case, e, im), a in zip(metas, common.lean_batch(reqs)):
        if "error" in a:
            raise common.InternalError("lean: " + a["error"])
        agree = a["impl_model"] == im["ranks"]
        spec_ok = a["spec"] == a["impl_model"] == default_loop_order(case, e)
        ctx.ob(agree); ctx.ob(spec_ok and a["hyp"])
        ctx.stat("model_vs_impl")
        if not agree and take_before_product(e) and im["ranks"] == default_loop_order(case, times_first(e)):
            f = ctx.match_finding({"predicates": {"take_term_before_product_term"}, "signature": "default-order-follows-first-product-term"})
            if f:
                ctx.known(f, f["what"]); continue
        if not agree:
            canonical = default_loop_order(case, e)
            ctx.violation(dict(kind="default-order-model", yaml=gens.to_yaml_dict(case), einsum=gens.ein_str(e), impl=im["ranks"], model=a["impl_model"], canonical=canonical,
                               reason="LoopOrder.get_ranks() %r differs from the model of the default order %r (canonical default: %r)" % (im["ranks"], a["impl_model"], canonical),
                               obligation="DefaultOrder.implOrder (C19.default_order) = LoopOrder.__default_loop_order"), im["ranks"] != canonical)
        elif not (spec_ok and a["hyp"]):
            ctx.violation(dict(kind="default-order-spec", yaml=gens.to_yaml_dict(case), lean=a, harness_default=default_loop_order(case, e),
                               obligation="hypotheses of C19.default_order / agreement of the three readings of the default"), False)


def replay(ctx, path):
    rep = json.load(open(path))
    if rep.get("kind") == "default-differential":
        ca, cb = specs.compile_spec(rep["omitted"], "plain"), specs.compile_spec(rep["explicit"], "plain")
        ok = ca.ok and cb.ok and ca.text == cb.text
        ctx.ob(ok)
        if not ok:
            ctx.violation(rep, True)
        return ctx.finish()
    print("replay kind not supported"); return 2
