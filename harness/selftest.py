"""Smoke test of the Lean driver (part of setup_cmd)."""
import os, sys
sys.path.insert(0, os.path.dirname(os.path.abspath(__file__)))
import common
a = common.lean_batch([{"op": "ping"}, {"op": "gen_expr", "tree": ["EBinOp", ["EVar", "a"], "+", ["EInt", -3]]}])
assert a[0].get("ok") is True and a[1].get("text") == "a + -3", a
print("driver ok")
