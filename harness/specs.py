"""Specifications: corpus loading, compilation through the real compiler, YAML rendering."""
import copy, glob, io, os, sys, traceback
import common
from ruamel.yaml import YAML


def load_yaml_file(path):
    return YAML(typ="safe", pure=True).load(open(path).read())


def dump_yaml(d):
    buf = io.StringIO()
    y = YAML(typ="safe", pure=True)
    y.default_flow_style = None
    y.dump(d, buf)
    return buf.getvalue()


def corpus():
    out = []
    for f in sorted(glob.glob(os.path.join(common.VERIF, "corpus", "*.yaml"))):
        d = load_yaml_file(f)
        if isinstance(d, dict) and "einsum" in d:
            out.append((os.path.basename(f)[:-5], d))
    return out


def strip(d, *keys):
    d = copy.deepcopy(d)
    for k in keys:
        if k in ("spacetime", "partitioning", "loop-order", "rank-order"):
            if "mapping" in d and d["mapping"] and k in d["mapping"]:
                del d["mapping"][k]
        elif k in d:
            del d[k]
    return d


def has_metrics(d):
    return bool(d.get("architecture")) and bool(d.get("bindings")) and bool(d.get("format"))


def has_spacetime(d):
    return bool((d.get("mapping") or {}).get("spacetime"))


class Compiled:
    def __init__(self):
        self.ok = False
        self.err_kind = None      # "ValueError" | other exception class name
        self.err_msg = None
        self.text = None
        self.hf = None

    def tree(self):
        import export
        return export.stmt(self.hf.hifiber)


def build_objects(d, mode):
    from teaal.parse import Einsum, Mapping, Architecture, Bindings, Format
    d = copy.deepcopy(d)
    # YAML anchors/aliases: "_alias": [[source path, destination path], ...] makes the destination THE SAME OBJECT as the source
    # (what `&a` / `*a` produce when the text is loaded); kept as paths so that a specification survives JSON (records, replays)
    for src, dst in d.pop("_alias", None) or []:
        obj = d
        for k in src:
            obj = obj[k]
        par = d
        for k in dst[:-1]:
            par = par[k]
        par[dst[-1]] = obj
    if "mapping" not in d or d["mapping"] is None:
        d["mapping"] = {}
    if mode == "plain":
        d = strip(d, "spacetime")
    einsum = Einsum(copy.deepcopy(d))
    mapping = Mapping(copy.deepcopy(d))
    if mode == "metrics":
        arch = Architecture(copy.deepcopy(d))
        bindings = Bindings(copy.deepcopy(d))
        fmt = Format(copy.deepcopy(d))
        return (einsum, mapping, arch, bindings, fmt)
    return (einsum, mapping)


def compile_spec(d, mode="plain"):
    """mode: plain (spacetime stripped) | spacetime (mapping as given) | metrics (arch+bindings+format)."""
    from teaal.trans.hifiber import HiFiber
    c = Compiled()
    try:
        objs = build_objects(d, mode)
        c.hf = HiFiber(*objs)
        c.text = str(c.hf)
        c.ok = True
    except ValueError as e:
        c.err_kind, c.err_msg = "ValueError", str(e)
    except Exception as e:
        c.err_kind, c.err_msg = type(e).__name__, str(e)[:300]
        c.tb = traceback.format_exc(limit=4)
    return c


def modes_of(d):
    ms = ["plain"]
    if has_spacetime(d):
        ms.append("spacetime")
    if has_metrics(d):
        ms.append("metrics")
    return ms
