"""C11 — metrics instrumentation does not change what is computed.
Theorems: Props/C11 (mem_coiterT, coiterT_perm, swizzle_comp).  Tie: every generated architecture/bindings/format
specification (G7: lazy and eager buffets, caches, DRAM, compute, the three intersector types incl. leader-follower
with leader first or later, mergers with extra swizzles, sequencers, explicit output shapes, partitioned and
flattened ranks, cascades over one or two configurations) is compiled in metrics mode and in plain mode (same
Einsum and mapping, no architecture/bindings/format); both programs are executed on identical inputs with inert
observer stand-ins: identical tensors, equal to the Einsum's result."""
import json, random
import common, pool, specs, gens, c02, ftdiff


def classify(case, rec):
    import gens7
    preds = set(case["tags"]) & (set(gens7.KNOWN_BAD_TAGS) | {"merger_swizzle_before_multi_rank_lookup"})
    if rec is not None and gens.colliding_rank_names(rec["yaml"]):
        preds.add("colliding_rank_names")
    if "metrics_partitioned_index_math" in case["tags"]:
        # a partitioned convolution: since fix b32f93e these programs run in metrics mode, and with a halo on the following rank they
        # show C04's finding (interval of a non-last partition not clipped: elements beyond the extent) exactly as the plain programs do
        preds.add("halo_partition")
    return preds


def witnesses(ctx):
    """known findings that carry an executable witness are replayed against the real compiler on every run"""
    for f in ctx.findings:
        w = f.get("witness_case")
        if not w:
            continue
        rec = pool.make_record("known:" + f["id"], 0, w, gens.to_yaml_dict(w), "metrics", 2, random.Random(1), "", reference=True)
        if not rec["ok"]:
            ctx.notes.append("known finding %s: witness no longer compiles" % f["id"]); continue
        before = len(ctx.known_hits)
        c02.check_records(ctx, [rec], classify=classify, need_reference=True)
        if len(ctx.known_hits) == before:
            ctx.notes.append("known finding %s: witness no longer fails - the defect may have been repaired; entry must be revisited" % f["id"])


def run(ctx):
    import gens7
    ctx.rule = ("generated G7 specifications (see harness/gens7.py: Einsum families x mappings x architectures x bindings x formats), compiled in metrics mode and executed on 2 random inputs with "
                "inert Metrics/Traffic/Compute/Format/intersector stand-ins, compared with the plain compile of the same Einsum+mapping and the dense oracle; non-trivial = metrics program "
                "with a loop; distinct = distinct text")
    ctx.trusted = ["Lean kernel; Props/C11 (the three tensor-level rewrites)", "that observer statements do not touch tensors and that payload patterns match the re-ordered arguments is observed by "
                   "execution (inert stand-ins in minifiber), sampled over specifications and inputs", "the reading of Fiber.intersection(style=leader-follower) in minifiber (DESIGN 7.3)"]
    k = 1 if ctx.tier == "quick" else 8
    rng = random.Random(ctx.seed * 3571 + 11)
    ftdiff.run(ctx, rng, 40 * k, ops=("swizzle",))
    recs = pool.collect(ctx, [dict(gen="g7", count=130 * k, modes=["metrics"], nexec=2, reference=True),
                              dict(gen="g7conv", count=20 * k, modes=["metrics"], nexec=2, reference=True),
                              dict(gen="g7lf", count=15 * k, modes=["metrics"], nexec=2, reference=True), dict(gen="g7lfa", count=20 * k, modes=["metrics"], nexec=2, reference=True),
                              dict(gen="g7mrg", count=12 * k, modes=["metrics"], nexec=2, reference=True)])
    ctx.findings = ctx.findings + [f for f in common.load_findings("C04") if f["id"] == "C04-interval-not-clipped"]
    keep = []
    for r in recs:
        tags = set(r["case"]["tags"]) if r.get("case") else set()
        if not r["ok"]:
            if tags & set(gens7.EXPECT_REJECT_TAGS):
                ctx.stat("expected_reject_class"); continue
        keep.append(r)
    c02.check_records(ctx, keep, classify=classify, need_reference=True)
    # the loops of the METRICS-mode program against the Lean model compiler (C01/C02 theorems): observers read through
    c02.check_model(ctx, [r for r in keep if r["ok"] and not classify(r["case"], r)], only_model_class=True)
    # the tensor objects of the METRICS-mode program: rank ids / aliasing (C07.chk_sound) and origin of every in-place update
    # (C07.tchk_sound) - the instrumentation neither renames nor modifies a user input, in any execution
    import c07
    okr = [r for r in keep if r["ok"] and not classify(r["case"], r) and "user" in r]
    reqs = [{"op": op, "tree": r["tree"], "inputs": c07.input_vars(r)} for r in okr for op in ("rankheap", "taint_check")]
    ans = common.lean_batch(reqs)
    for i, r in enumerate(okr):
        for a, what in ((ans[2 * i], "rank ids / aliasing"), (ans[2 * i + 1], "origin of in-place updates")):
            if "error" in a:
                raise common.InternalError("lean: " + a["error"])
            ctx.ob(a["ok"]); ctx.stat("metrics_tree_object_checks")
            if not a["ok"]:
                ctx.violation(dict(kind="metrics-objects", yaml=r["yaml"], yaml_text=specs.dump_yaml(r["yaml"]), text=r["text"], reason="%s: %s" % (what, a["why"]),
                                   obligation="RankHeap.chk / Taint.chk (C07.chk_sound, C07.tchk_sound) accept the metrics-mode tree"), False)
    witnesses(ctx)
    for f in ctx.findings:
        if f["id"] not in [h for h, _ in ctx.known_hits]:
            ctx.notes.append("known finding %s not encountered in this run's sample" % f["id"])


def replay(ctx, path):
    print("replay: re-run `./check C11`; the replay file carries the specification and inputs"); return 2
