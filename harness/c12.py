"""C12 — every trace the metrics dump consumes is produced during collection.
Theorem: Props/C12.traceOK_sound (an accepted program never blocks the collection machine, for every iteration
count of every loop).  Tie: the event structure is extracted in Lean from the tree the real compiler built
(corpus accelerator specifications and G7: lazy and eager buffets, caches, each intersector type, sequencers,
mergers, flattened and partitioned ranks, cascades); TraceOK must hold; one collection per Einsum."""
import json
import common, pool, specs, c06


def two_formats(d):
    """some tensor bound to a memory component has two or more declared formats (so a binding can name a format
    that is not the one the tensor is traversed in)"""
    fm = d.get("format") or {}
    for ein, bl in (d.get("bindings") or {}).items():
        for b in bl:
            for x in b.get("bindings") or []:
                if isinstance(x, dict) and "tensor" in x and "format" in x and len(fm.get(x["tensor"]) or {}) > 1:
                    return True
    return False


def bound_format_discordant(d):
    """some tensor is bound under a format whose rank-order is not the order in which that Einsum's loop order reaches those ranks
    (a rank of the format that the mapping tiles counts at its first level in the loop order): such a format is not a "loop format"
    of the Einsum (Metrics.__build_format_options drops it), yet its bindings are still consumed"""
    import re
    fm = d.get("format") or {}
    los = ((d.get("mapping") or {}).get("loop-order") or {})
    for ein, bl in (d.get("bindings") or {}).items():
        lo = los.get(ein)
        if not lo:
            continue
        base = [re.sub(r"\d+$", "", r) for r in lo]
        for b in bl:
            for x in b.get("bindings") or []:
                if not (isinstance(x, dict) and "tensor" in x and "format" in x):
                    continue
                fo = ((fm.get(x["tensor"]) or {}).get(x["format"]) or {}).get("rank-order") or []
                pos = []
                for r in fo:
                    if r in lo:
                        pos.append(lo.index(r))
                    elif r in base:
                        pos.append(base.index(r))
                if pos != sorted(pos):
                    return True
    return False


def run(ctx):
    import gens7
    ctx.rule = ("metrics-mode compilations of the corpus accelerator specifications and of generated G7 specifications under several hash seeds; the tree is handed to Lean, which extracts the "
                "Metrics/Traffic/intersector events and runs the collection machine; non-trivial = program consuming at least one trace; distinct = distinct text")
    ctx.trusted = ["Lean kernel; Props/C12.traceOK_sound", "the machine is my reading of the Metrics/Traffic API contract (file naming <prefix>-<rank>-<type>.csv, consumable registrations); "
                   "the event extraction HF.stmtItems is executable Lean evaluated on the real trees (no theorem about the extractor)", "specifications are sampled"]
    k = 1 if ctx.tier == "quick" else 8
    recs = pool.collect(ctx, [dict(gen="corpus", count=0, modes=["metrics"], all_workers=True), dict(gen="g7", count=150 * k, modes=["metrics"]),
                              dict(gen="g7lf", count=25 * k, modes=["metrics"]), dict(gen="g7fmt", count=40 * k, modes=["metrics"]), dict(gen="g7lz", count=25 * k, modes=["metrics"])])
    reqs, metas = [], []
    for r in recs:
        tags = set(r["case"]["tags"]) if r.get("case") else set()
        if not r["ok"]:
            ctx.stat("expected_reject_class" if tags & set(gens7.EXPECT_REJECT_TAGS) else ("rejected_" if r["err_kind"] == "ValueError" else "compile_crash_") + str(r["err_kind"]))
            continue
        if "tree" not in r:
            continue
        reqs.append({"op": "trace_ok", "tree": r["tree"]}); metas.append(r)
    for r, a in zip(metas, common.lean_batch(reqs)):
        if "error" in a:
            raise common.InternalError("lean: " + a["error"])
        n = len(r["yaml"]["einsum"]["expressions"])
        ctx.case([r["text"]], nontrivial=a["consumed"] > 0)
        ctx.stat("events", a["events"]); ctx.stat("events_in_loops", a["events_in_loops"]); ctx.stat("consuming_events", a["consumed"])
        sections_ok = a["sections"] == n and a["begins"] == n
        ctx.ob(a["ok"]); ctx.ob(sections_ok)
        if len(ctx.samples) < 3 and a["consumed"] > 4:
            ctx.sample({"einsum": r["yaml"]["einsum"]["expressions"], "events": a["events"], "consuming_events": a["consumed"], "sections": a["sections"]})
        if a["ok"] and sections_ok:
            continue
        if not a["ok"] and "needs files" in a["why"] and two_formats(r["yaml"]):
            f = ctx.match_finding({"predicates": {"tensor_with_several_formats_bound"}, "signature": "unregistered-trace-file-consumed"})
            if f:
                ctx.known(f, f["what"], failed_obligations=1 + (0 if sections_ok else 1)); continue
        if not a["ok"] and "needs files" in a["why"] and bound_format_discordant(r["yaml"]):
            f = ctx.match_finding({"predicates": {"bound_format_discordant_with_loop_order"}, "signature": "unregistered-trace-file-consumed"})
            if f:
                ctx.known(f, f["what"], failed_obligations=1 + (0 if sections_ok else 1)); continue
        ctx.violation(dict(kind="trace-machine", yaml=r["yaml"], yaml_text=specs.dump_yaml(r["yaml"]), hashseed=r["hashseed"], text=r["text"],
                           reason=a["why"] if not a["ok"] else "collection is opened/closed %d/%d times for %d Einsum(s)" % (a["begins"], a["sections"], n),
                           obligation="TraceOK (Props/C12.traceOK_sound) on the tree of the real compiler"), True)
    witnesses(ctx)


def witnesses(ctx):
    for f in ctx.findings:
        w = f.get("witness")
        if not w:
            continue
        c = specs.compile_spec(w, "metrics")
        if not c.ok:
            ctx.notes.append("known finding %s: witness no longer compiles" % f["id"]); continue
        a = common.lean_batch([{"op": "trace_ok", "tree": c.tree()}])[0]
        if a["ok"]:
            ctx.notes.append("known finding %s: witness no longer fails - entry must be revisited" % f["id"])
        else:
            ctx.known(f, f["what"], failed_obligations=0)


def replay(ctx, path):
    rep = json.load(open(path))
    c = specs.compile_spec(rep["yaml"], "metrics")
    if not c.ok:
        print("specification no longer compiles"); return ctx.finish()
    a = common.lean_batch([{"op": "trace_ok", "tree": c.tree()}])[0]
    ctx.ob(a["ok"])
    if not a["ok"]:
        ctx.violation(dict(rep, reason=a["why"]), True)
    return ctx.finish()
