"""C08 — emission-order nondeterminism is benign.
Theorems: Props/C08 (split_comm: partitioning different ranks of one tensor commutes; swap_indep: adjacent
statements with disjoint footprints commute), plus C06's DA_sound applied to every variant text.  Tie: the SAME
specifications (partitioned G2/G3 families, a double-flatten family, the accelerator specifications in metrics
mode, G7) are compiled in worker processes that differ only in PYTHONHASHSEED; per specification the distinct
texts are collected: each must be closed (DA, evaluated in Lean), all must compute identical tensors on
identical inputs (and the Einsum's), and within each process compiling twice must give identical text."""
import json, random
import common, pool, specs, gens, c06, semcheck


def run(ctx):
    ctx.rule = ("partitioned specifications (G2 with several partitioned ranks per tensor, G3 incl. two-level occupancy, the occupancy+shape+flatten and double-flatten families, G3dd: two dynamic flattenings on one tensor, G3z: a >= 3-level dynamic split of an output rank next to a second partitioned rank), "
                "corpus accelerator specifications and G7 specifications in metrics mode, each compiled under 6 (quick) / 16 (thorough) hash seeds incl. 0 and the run's own; "
                "non-trivial = specification with >= 2 distinct texts across seeds; distinct = distinct (specification, text)")
    ctx.trusted = ["Lean kernel; Props/C08 and Props/C06", "hash seeds are sampled (the theorems cover all orders of independent statements / of commuting splits; which orders the "
                   "implementation can produce is not modelled)", "tensor equality of variants is observed by execution on identical sampled inputs"]
    rng = random.Random(ctx.seed * 6007 + 8)
    k = 1 if ctx.tier == "quick" else 4
    fixed = []
    for g, n in (("g2", 25 * k), ("g3", 20 * k), ("g3x", 8 * k), ("g3y", 12 * k), ("g3z", 15 * k), ("g3v", 14 * k), ("g3u", 8 * k), ("g3dd", 10 * k), ("g4s", 12 * k), ("g4", 10 * k), ("g3ff", 8 * k)):
        for _ in range(n):
            case = getattr(gens, g)(rng)
            fixed.append(dict(case=case, modes=["plain"], input_seed=rng.randrange(10**9)))
    try:
        import gens7
        for _ in range(25 * k):
            case = gens7.g7(rng, clean=True)
            fixed.append(dict(case=case, modes=["metrics"], input_seed=rng.randrange(10**9)))
    except ImportError:
        pass
    for name, d in specs.corpus():
        if specs.has_metrics(d):
            fixed.append(dict(case=None, yaml=d, modes=["metrics", "plain"]))
    nseeds = 6 if ctx.tier == "quick" else 16
    seeds = [0, (ctx.seed * 2654435761 + 17) % 4294967295] + [rng.randrange(1, 2**31) for _ in range(nseeds - 2)]
    recs = pool.collect(ctx, [dict(gen="fixed", count=0, modes=["plain"], nexec=1, cases=fixed)], nworkers=nseeds, hashseeds=seeds)
    groups = {}
    for r in recs:
        groups.setdefault((r["idx"], r["mode"]), []).append(r)
    da_reqs, da_meta = [], []
    reorder_reqs, reorder_meta = [], []
    ctx.findings = ctx.findings + common.load_findings("C06")
    for (idx, mode), rs in sorted(groups.items()):
        oks = [r for r in rs if r["ok"]]
        if not oks:
            ctx.stat("rejected_everywhere"); continue
        if len(oks) != len(rs):
            ctx.ob(False)
            ctx.violation(dict(kind="seed-dependent-acceptance", yaml=rs[0]["yaml"], mode=mode, outcomes={r["hashseed"]: (r["ok"], r["err_kind"]) for r in rs},
                               reason="the specification compiles under some hash seeds and fails under others"), True)
            continue
        texts = {}
        for r in oks:
            texts.setdefault(r["text"], []).append(r)
        ctx.case([idx, mode, sorted(texts)[0]], nontrivial=len(texts) >= 2)
        ctx.stat("variants_%d" % min(len(texts), 5)); ctx.stat("mode_" + mode)
        # within one process: compiling twice yields identical text
        for r in oks:
            same = r.get("second_compile_same", True)
            ctx.ob(same)
            if not same:
                ctx.violation(dict(kind="not-repeatable-in-process", yaml=r["yaml"], mode=mode, hashseed=r["hashseed"],
                                   reason="compiling the same specification twice in one process gives different texts"), True)
        # every variant closed
        for t, rr in texts.items():
            da_reqs.append(rr[0]); da_meta.append(rr[0])
        # identical tensors on identical inputs
        outs = {}
        for t, rr in texts.items():
            r = rr[0]
            for ex in r.get("execs", []):
                ok, reason, sig = semcheck.verdict(r["case"], ex)
                key = json.dumps(semcheck.outputs_of(ex), sort_keys=True) if ex.get("ok") else "ERR:" + str(ex.get("err"))
                outs.setdefault(key, []).append((r["hashseed"], ok, reason, sig, r))
        if outs:
            agree = len(outs) == 1
            ctx.ob(agree)
            if not agree:
                case = rs[0]["case"]
                ctx.violation(dict(kind="variants-differ", yaml=rs[0]["yaml"], yaml_text=specs.dump_yaml(rs[0]["yaml"]), mode=mode,
                                   variants=[{"hashseeds": [r["hashseed"] for r in rr], "text": t} for t, rr in texts.items()],
                                   results={k2[:200]: [v[0] for v in vs] for k2, vs in outs.items()}, inputs=oks[0]["execs"][0]["inputs"] if oks[0].get("execs") else None,
                                   reason="texts emitted under different hash seeds compute different tensors on identical inputs"), True)
            else:
                (key, vs), = outs.items()
                ok = vs[0][1]
                ctx.ob(ok)
                if not ok:
                    tags = set(rs[0]["case"]["tags"]) if rs[0]["case"] else set()
                    bad = tags & {"leader_not_first_factor", "eager_root_after_lookup_rank"}
                    if gens.colliding_rank_names(rs[0]["yaml"]):
                        bad = bad | {"colliding_rank_names"}          # C11-colliding-rank-names (a finding of the unchanged tree)
                    # convolutions outside C04's claimed class stay C04's findings (same classification and signatures as ./check C04)
                    conv_known = None
                    if "conv" in tags:
                        import c04
                        for pr in c04.classify(rs[0]["case"], vs[0][4]):
                            conv_known = conv_known or next((f for f in common.load_findings("C04")
                                                             if f["match"]["predicate"] == pr and f["match"]["signature"] in ("*", vs[0][3])), None)
                    if "metrics_partitioned_index_math" in tags and vs[0][3] == "out-of-extent-only":
                        conv_known = True               # C04-interval-not-clipped, in a metrics-mode convolution of G7
                    if bad or conv_known:
                        ctx.stat("known_bad_class_skipped"); ctx.oblig -= 1
                    else:
                        ctx.violation(dict(kind="variants-wrong", yaml=rs[0]["yaml"], mode=mode, text=oks[0]["text"], reason=vs[0][2], inputs=oks[0]["execs"][0]["inputs"]), True)
        if len(texts) >= 2:
            # how the variants differ: pure re-orderings of the same statements (C08.reorder_sound applies to the section that is
            # re-ordered when conflicting statements keep their order - established here per sample by C06's DA and by execution),
            # re-orderings up to the numbering of temporaries, or different statement chains (C08.split_comm)
            import re as _re
            def _key(t, norm):
                ls = [l.strip() for l in t.split("\n") if l.strip()]
                if norm:
                    ls = [_re.sub(r"tmp\d+", "tmp", l) for l in ls]
                return sorted(ls)
            tl = list(texts)
            if all(_key(t, False) == _key(tl[0], False) for t in tl[1:]):
                ctx.stat("variants_pure_reordering")
                for t in tl[1:]:
                    reorder_reqs.append({"op": "reorder_check", "tree1": texts[tl[0]][0]["tree"], "tree2": texts[t][0]["tree"]})
                    reorder_meta.append((rs[0], tl[0], t))
            elif all(_key(t, True) == _key(tl[0], True) for t in tl[1:]):
                ctx.stat("variants_reordering_up_to_tmp_numbering")
            else:
                ctx.stat("variants_different_statements")
        if len(texts) >= 2 and len(ctx.samples) < 3:
            ctx.sample({"einsum": rs[0]["yaml"]["einsum"]["expressions"], "partitioning": (rs[0]["yaml"].get("mapping") or {}).get("partitioning"),
                        "distinct_texts": len(texts), "seeds": len(oks)})
    c06.check_records(ctx, da_reqs)
    # variants that are re-orderings of the same top-level statements: every pair with conflicting footprints keeps its order, so
    # C08.reorder_sound gives the same final store from EVERY initial store (not only on the sampled inputs)
    for (r0, ta, tb), a in zip(reorder_meta, common.lean_batch(reorder_reqs)):
        if "error" in a:
            raise common.InternalError("lean: " + a["error"])
        if not a["applicable"]:
            ctx.stat("reorder_check_not_applicable"); continue
        ctx.stat("reorder_check_applied"); ctx.stat("reordered_statements", a["moved"])
        ctx.ob(a["order_kept"])
        if not a["order_kept"]:
            ctx.violation(dict(kind="reordering-crosses-conflict", yaml=r0["yaml"], mode=r0["mode"], variant_a=ta, variant_b=tb, pairs=a["violating_pairs"],
                               obligation="hypothesis of C08.reorder_sound: statements with conflicting footprints keep their relative order in both emission orders",
                               reason="two emission orders of the same statements exchange statements with conflicting footprints: %r" % a["violating_pairs"][:1]), False)
    # every distinct variant against the Lean model compilers: a variant whose loops are the model nest's and for which the
    # theorem's decidable hypotheses hold computes the Einsum's meaning for EVERY input (C02.model_partitioned / C03.static_then_chain /
    # flatten_nest), hence all such variants of one specification compute identical tensors on all inputs, not only the sampled ones
    import c02, c03
    variants = [r for r in da_reqs if r.get("case") and r.get("execs")]
    c02.check_model(ctx, variants, only_model_class=True)
    c03.check_model(ctx, [r for r in variants if r["mode"] == "plain" and not c02.in_model_class(r["case"]) and len(r["case"]["eins"]) == 1])


def replay(ctx, path):
    print("replay: re-run `./check C08`; the replay file lists the hash seeds and variant texts"); return 2
