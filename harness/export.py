"""Serialise HiFiber trees (teaal.hifiber.*) and CPython ASTs into the JSON vocabulary of
TeaalVerif/HF/Json.lean.  Untrusted: Lean re-prints what it decoded and the text is compared."""
import ast
from teaal.hifiber import *  # noqa

OPS = {"OAdd": "+", "OAnd": "&", "ODiv": "/", "OEqEq": "==", "OFDiv": "//", "OIn": "in", "OLt": "<",
       "OLtLt": "<<", "OMod": "%", "OMul": "*", "ONotIn": "not in", "OOr": "|", "OSub": "-"}


class ExportError(Exception):
    pass


def op(o):
    n = type(o).__name__
    if n not in OPS:
        raise ExportError("unknown operator " + n)
    return OPS[n]


def args(a_list):
    kws, es = [], []
    for a in a_list:
        n = type(a).__name__
        if n == "AJust":
            kws.append(None)
        elif n == "AParam":
            kws.append(a.name)
        else:
            raise ExportError("unknown argument " + n)
        es.append(expr(a.expr))
    return kws, es


def expr(e):
    n = type(e).__name__
    if n == "EAccess":
        return ["EAccess", expr(e.obj), expr(e.ind)]
    if n == "EBinOp":
        return ["EBinOp", expr(e.expr1), op(e.op), expr(e.expr2)]
    if n == "EBool":
        return ["EBool", bool(e.bool)]
    if n == "EComp":
        return ["EComp", expr(e.elem), e.var, expr(e.iter)]
    if n == "EDict":
        return ["EDict", [expr(k) for k in e.dict.keys()], [expr(v) for v in e.dict.values()]]
    if n == "EField":
        return ["EField", e.obj, e.field]
    if n == "EFloat":
        return ["EFloat", e.gen()]
    if n == "EFunc":
        k, a = args(e.args)
        return ["EFunc", e.name, k, a]
    if n == "EInt":
        if type(e.int) is int:
            return ["EInt", e.int]
        if str(e.int).lstrip("-").isdigit():
            return ["EInt", int(str(e.int))]
        return ["EFloat", str(e.int)]
    if n == "ELambda":
        return ["ELambda", list(e.args), expr(e.body)]
    if n == "EList":
        return ["EList", [expr(x) for x in e.list]]
    if n == "EMethod":
        k, a = args(e.args)
        return ["EMethod", expr(e.obj), e.name, k, a]
    if n == "EParens":
        return ["EParens", expr(e.expr)]
    if n == "EString":
        return ["EString", e.string]
    if n == "ETuple":
        return ["ETuple", [expr(x) for x in e.elems]]
    if n == "EVar":
        return ["EVar", e.name]
    raise ExportError("unknown expression " + n)


def payload(p):
    n = type(p).__name__
    if n == "PTuple":
        return ["PTuple", [payload(q) for q in p.payloads]]
    if n == "PVar":
        return ["PVar", p.var]
    raise ExportError("unknown payload " + n)


def assn(a):
    n = type(a).__name__
    if n == "AAccess":
        return ["AAccess", expr(a.obj), expr(a.ind)]
    if n == "AField":
        return ["AField", a.obj, a.field]
    if n == "AVar":
        return ["AVar", a.name]
    raise ExportError("unknown assignable " + n)


def stmt(s):
    n = type(s).__name__
    if n == "SAssign":
        return ["SAssign", assn(s.assn), expr(s.expr)]
    if n == "SBlock":
        return ["SBlock", [stmt(x) for x in s.stmts]]
    if n == "SExpr":
        return ["SExpr", expr(s.expr)]
    if n == "SFor":
        return ["SFor", payload(s.payload), expr(s.expr), stmt(s.stmt)]
    if n == "SFunc":
        return ["SFunc", s.name, [a.name for a in s.args], stmt(s.body)]
    if n == "SIAssign":
        return ["SIAssign", assn(s.assn), op(s.op), expr(s.expr)]
    if n == "SIf":
        return ["SIf", expr(s.if_[0]), stmt(s.if_[1]), [expr(c) for c, _ in s.elifs],
                [stmt(b) for _, b in s.elifs], None if s.else_ is None else stmt(s.else_)]
    if n == "SReturn":
        return ["SReturn", expr(s.expr)]
    raise ExportError("unknown statement " + n)


# ----------------------------------------------------------------------------------------------
# CPython AST -> the same vocabulary (no EParens; operator chains as CPython nests them)

PYOPS = {ast.Add: "+", ast.BitAnd: "&", ast.Div: "/", ast.FloorDiv: "//", ast.LShift: "<<", ast.Mod: "%",
         ast.Mult: "*", ast.BitOr: "|", ast.Sub: "-"}
PYCMP = {ast.Eq: "==", ast.In: "in", ast.Lt: "<", ast.NotIn: "not in"}


def py_args(call):
    kws = [None] * len(call.args) + [k.arg for k in call.keywords]
    es = [py_expr(a) for a in call.args] + [py_expr(k.value) for k in call.keywords]
    return kws, es


def py_expr(e):
    if isinstance(e, ast.Subscript):
        return ["EAccess", py_expr(e.value), py_expr(e.slice)]
    if isinstance(e, ast.BinOp):
        if type(e.op) not in PYOPS:
            raise ExportError("py operator " + type(e.op).__name__)
        return ["EBinOp", py_expr(e.left), PYOPS[type(e.op)], py_expr(e.right)]
    if isinstance(e, ast.Compare):
        if len(e.ops) != 1 or type(e.ops[0]) not in PYCMP:
            raise ExportError("py comparison chain")
        return ["EBinOp", py_expr(e.left), PYCMP[type(e.ops[0])], py_expr(e.comparators[0])]
    if isinstance(e, ast.Constant):
        v = e.value
        if v is True or v is False:
            return ["EBool", v]
        if isinstance(v, int):
            return ["EInt", v]
        if isinstance(v, float):
            return ["EFloat", repr(v)]
        if isinstance(v, str):
            return ["EString", v]
        if v is None:
            return ["EVar", "None"]
        raise ExportError("py constant " + repr(v))
    if isinstance(e, ast.UnaryOp) and isinstance(e.op, ast.USub):
        inner = py_expr(e.operand)
        if inner[0] == "EInt":
            return ["EInt", -inner[1]]
        if inner[0] == "EFloat":
            return ["EFloat", "-" + inner[1]]
        if inner[0] == "EFunc" and inner[1] == "float":
            return ["EFloat", "-" + "float(\"inf\")"]
        return ["ENeg", inner]
    if isinstance(e, ast.ListComp):
        if len(e.generators) != 1 or e.generators[0].ifs or not isinstance(e.generators[0].target, ast.Name):
            raise ExportError("py comprehension")
        g = e.generators[0]
        return ["EComp", py_expr(e.elt), g.target.id, py_expr(g.iter)]
    if isinstance(e, ast.Dict):
        return ["EDict", [py_expr(k) for k in e.keys], [py_expr(v) for v in e.values]]
    if isinstance(e, ast.Attribute):
        if isinstance(e.value, ast.Name):
            return ["EField", e.value.id, e.attr]
        return ["EAttr", py_expr(e.value), e.attr]
    if isinstance(e, ast.Call):
        k, a = py_args(e)
        f = e.func
        if isinstance(f, ast.Name):
            if f.id == "float" and len(a) == 1 and a[0] == ["EString", "inf"]:
                return ["EFloat", "float(\"inf\")"]
            return ["EFunc", f.id, k, a]
        if isinstance(f, ast.Attribute):
            return ["EMethod", py_expr(f.value), f.attr, k, a]
        raise ExportError("py call of " + type(f).__name__)
    if isinstance(e, ast.Lambda):
        a = e.args
        if a.vararg or a.kwarg or a.kwonlyargs or a.defaults or a.posonlyargs:
            raise ExportError("py lambda args")
        return ["ELambda", [x.arg for x in a.args], py_expr(e.body)]
    if isinstance(e, ast.List):
        return ["EList", [py_expr(x) for x in e.elts]]
    if isinstance(e, ast.Tuple):
        return ["ETuple", [py_expr(x) for x in e.elts]]
    if isinstance(e, ast.Name):
        return ["EVar", e.id]
    raise ExportError("py expression " + type(e).__name__)


def py_target(t):
    if isinstance(t, ast.Name):
        return ["PVar", t.id]
    if isinstance(t, ast.Tuple):
        return ["PTuple", [py_target(x) for x in t.elts]]
    raise ExportError("py target " + type(t).__name__)


def py_assn(t):
    if isinstance(t, ast.Name):
        return ["AVar", t.id]
    if isinstance(t, ast.Subscript):
        return ["AAccess", py_expr(t.value), py_expr(t.slice)]
    if isinstance(t, ast.Attribute) and isinstance(t.value, ast.Name):
        return ["AField", t.value.id, t.attr]
    raise ExportError("py assignment target " + type(t).__name__)


def py_block(body):
    return ["SBlock", [py_stmt(s) for s in body]]


def py_stmt(s):
    if isinstance(s, ast.Assign):
        if len(s.targets) != 1:
            raise ExportError("py multi-assign")
        return ["SAssign", py_assn(s.targets[0]), py_expr(s.value)]
    if isinstance(s, ast.Expr):
        return ["SExpr", py_expr(s.value)]
    if isinstance(s, ast.For):
        if s.orelse:
            raise ExportError("py for-else")
        return ["SFor", py_target(s.target), py_expr(s.iter), py_block(s.body)]
    if isinstance(s, ast.FunctionDef):
        return ["SFunc", s.name, [a.arg for a in s.args.args], py_block(s.body)]
    if isinstance(s, ast.AugAssign):
        if type(s.op) not in PYOPS:
            raise ExportError("py aug operator")
        return ["SIAssign", py_assn(s.target), PYOPS[type(s.op)], py_expr(s.value)]
    if isinstance(s, ast.If):
        conds, bodies, els = [], [], None
        cur = s
        first = True
        c0 = b0 = None
        while True:
            if first:
                c0, b0 = py_expr(cur.test), py_block(cur.body)
                first = False
            else:
                conds.append(py_expr(cur.test))
                bodies.append(py_block(cur.body))
            if len(cur.orelse) == 1 and isinstance(cur.orelse[0], ast.If) and \
                    cur.orelse[0].col_offset == s.col_offset:
                cur = cur.orelse[0]
                continue
            if cur.orelse:
                els = py_block(cur.orelse)
            break
        return ["SIf", c0, b0, conds, bodies, els]
    if isinstance(s, ast.Return):
        return ["SReturn", py_expr(s.value)]
    raise ExportError("py statement " + type(s).__name__)


def py_program(text):
    return py_block(ast.parse(text).body)
