"""Export of the real FlowGraph (pre- and post-hoist) through the public IR, and a driver for
FlowGraph.__hoist on arbitrary DAGs (no source hook: FlowGraph.__new__ + the name-mangled method)."""
import copy, random
import networkx as nx


def flow_info(d, mode):
    """returns list (one per Einsum) of dict(nodes=[repr], edges=[[i,j]], sorted0, sorted1, loops=[{node, desc}])"""
    from teaal.parse import Einsum, Mapping, Architecture, Bindings, Format
    from teaal.ir.program import Program
    from teaal.ir.hardware import Hardware
    from teaal.ir.metrics import Metrics
    from teaal.ir.flow_graph import FlowGraph
    from teaal.ir.flow_nodes import LoopNode
    d = copy.deepcopy(d)
    d.setdefault("mapping", {})
    if mode == "plain" and "spacetime" in (d["mapping"] or {}):
        del d["mapping"]["spacetime"]
    einsum, mapping = Einsum(copy.deepcopy(d)), Mapping(copy.deepcopy(d))
    program = Program(einsum, mapping)
    hardware = fmt = None
    if mode == "metrics":
        hardware = Hardware(Architecture(copy.deepcopy(d)), Bindings(copy.deepcopy(d)), program)
        fmt = Format(copy.deepcopy(d))
    out = []
    for i in range(len(einsum.get_expressions())):
        program.add_einsum(i)
        metrics = Metrics(program, hardware, fmt) if hardware is not None else None
        fg0 = FlowGraph(program, metrics, [])
        fg1 = FlowGraph(program, metrics, ["hoist"])
        g = fg1.get_graph()
        nodes = list(g.nodes())
        ids = {repr(n): k for k, n in enumerate(nodes)}
        info = dict(nodes=[repr(n) for n in nodes],
                    edges=[[ids[repr(a)], ids[repr(b)]] for a, b in g.edges()],
                    sorted0=[ids[repr(n)] for n in fg0.get_sorted()],
                    sorted1=[ids[repr(n)] for n in fg1.get_sorted()],
                    same_graph=(sorted(repr(n) for n in fg0.get_graph().nodes()) == sorted(ids) and
                                sorted((repr(a), repr(b)) for a, b in fg0.get_graph().edges()) == sorted((repr(a), repr(b)) for a, b in g.edges())),
                    loops=[])
        for rank in program.get_loop_order().get_ranks():
            ln = LoopNode(rank)
            info["loops"].append(dict(node=ids[repr(ln)], desc=sorted(ids[repr(x)] for x in nx.descendants(g, ln))))
        out.append(info)
        program.reset()
    return out


class _LO:
    def __init__(self, ranks):
        self.ranks = ranks

    def get_ranks(self):
        return self.ranks


class _Prog:
    def __init__(self, ranks):
        self.lo = _LO(ranks)

    def get_loop_order(self):
        return self.lo


def random_dag_case(rng):
    """a random DAG containing a loop chain, one random topological order of it, and what the real
    __hoist makes of it"""
    from teaal.ir.flow_graph import FlowGraph
    from teaal.ir.flow_nodes import LoopNode, EndLoopNode, OtherNode
    k = rng.randint(1, 4)
    ranks = ["R%d" % i for i in range(k)]
    chain = [LoopNode(r) for r in ranks] + [OtherNode("Body")] + [EndLoopNode(r) for r in reversed(ranks)] + [OtherNode("Footer")]
    extra = [OtherNode("X%d" % i) for i in range(rng.randint(0, 8))]
    g = nx.DiGraph()
    base = list(chain)
    for x in extra:                       # place each extra node somewhere in a base order (keeps the graph acyclic)
        base.insert(rng.randint(0, len(base)), x)
    for n in base:
        g.add_node(n)
    for i in range(len(chain) - 1):
        g.add_edge(chain[i], chain[i + 1])
    pos = {repr(n): i for i, n in enumerate(base)}
    for x in extra:
        for y in base:
            if pos[repr(y)] < pos[repr(x)] and rng.random() < 0.25:
                g.add_edge(y, x)
            elif pos[repr(y)] > pos[repr(x)] and rng.random() < 0.2:
                g.add_edge(x, y)
    # random topological order (Kahn with random tie-breaks)
    indeg = {repr(n): g.in_degree(n) for n in g.nodes()}
    byrepr = {repr(n): n for n in g.nodes()}
    ready = [r for r, dgr in indeg.items() if dgr == 0]
    order = []
    while ready:
        r = ready.pop(rng.randrange(len(ready)))
        order.append(byrepr[r])
        for _, s in g.out_edges(byrepr[r]):
            indeg[repr(s)] -= 1
            if indeg[repr(s)] == 0:
                ready.append(repr(s))
    fg = FlowGraph.__new__(FlowGraph)
    fg.graph = g
    fg.program = _Prog(ranks)
    fg.metrics = None
    fg.sorted = list(order)
    fg._FlowGraph__hoist()
    nodes = list(g.nodes())
    ids = {repr(n): i for i, n in enumerate(nodes)}
    return dict(nodes=[repr(n) for n in nodes], edges=[[ids[repr(a)], ids[repr(b)]] for a, b in g.edges()],
                sorted0=[ids[repr(n)] for n in order], sorted1=[ids[repr(n)] for n in fg.sorted], same_graph=True,
                loops=[dict(node=ids[repr(LoopNode(r))], desc=sorted(ids[repr(x)] for x in nx.descendants(g, LoopNode(r)))) for r in ranks])
