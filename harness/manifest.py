"""Regenerates /verif/MANIFEST.json from the table below (run: /venv/bin/python harness/manifest.py)."""
import json, os
VERIF = os.path.dirname(os.path.dirname(os.path.abspath(__file__)))

CHECKS = {
 "C13": dict(
    category="proof",
    text="Lean theorems C13.partition / C13.legal / C13.names_flatten prove, for every history of Einsums (unbounded length, any configs, space/time splits, component sets), that the blocks built by the model of Fusion.add_einsum list every Einsum once, in order, contiguously, and that every block is legal. The model is tied to the code by running Fusion.step and the real Fusion (fed by real Program/Hardware objects) on the same generated histories and comparing blocks after every step; BlockOK is also evaluated in Lean on the implementation's blocks; the metrics[\"blocks\"] literal of real metrics compilations is compared with the fusion blocks.",
    design="5/C13",
    note="Trusted: Lean kernel + axioms propext/Classical.choice/Quot.sound; the model=implementation correspondence is sampled (generated histories), not proved; Obs is read off the generated YAML by the harness.",
    technique="Lean 4 invariant proof by induction over the history (state-machine model) + differential correspondence against Fusion.add_einsum"),
 "C06": dict(
    category="proof",
    text="Lean theorem C06.DA_sound/closed: a program accepted by the definite-assignment analysis DA from the user-supplied names reads no unbound name on ANY execution path (any iteration counts, any branches), and uses loop variables only inside their loop. DA is evaluated in Lean on the statement tree the real compiler built (after Lean's printer reproduced the emitted text exactly) for corpus + generated specifications in all three modes under several hash seeds; CPython's parser must accept the text.",
    design="5/C06",
    note="Trusted: Lean kernel; Python's binding rules as modelled by HF.Run; userNames(spec) computed by the harness; the quantifier over specifications is sampled by generators (validator soundness is unbounded in paths, not in programs). Known finding: coord-style stamp on a flattened rank reads an unbound name.",
    technique="Lean 4 proof of validator soundness (definite assignment vs nondeterministic trace semantics) + evaluation of the validator on the real compiler's trees"),
 "C10": dict(
    category="proof",
    text="Lean theorems C10.hoistAll_topo / hoistAll_perm / hoistOne_moved_legal / before_of_edge: for every dependence graph, every topological order (all tie-breaks) and every loop order, hoisting keeps the sequence a topological order, drops/duplicates nothing, moves a statement above a loop only if it is not a descendant, and leaves only descendants inside. The model hoistAll is compared with the real FlowGraph.__hoist on exported flow graphs (plain + metrics) and on random DAGs; hypotheses (Topo, Closed) and conclusions are re-evaluated in Lean on the implementation's data; def-use dependences of the emitted text are checked with C06's DA.",
    design="5/C10",
    note="Trusted: Lean kernel; networkx contracts re-checked per sample; model = implementation is sampled; completeness of the graph's edges w.r.t. the emitted statements is decided through DA on sampled programs.",
    technique="Lean 4 proof over an abstract insertion-ordered digraph model of __hoist + differential correspondence on exported flow graphs and random DAGs"),
 "C19": dict(
    category="proof",
    text="Lean theorem C19.default_order: for every Einsum, every set of single-rank partitionings and every order in which the implementation iterates that set (all hash seeds), the default loop order computed as the code does (append-if-new over the first term, then in-place replacement part by part) equals the canonical order of the property statement (output ranks as written, remaining ranks by first appearance, each partitioned rank replaced in place by its levels). Tie: (a) real compiler, section omitted vs default written out by the harness from the property statement (rank-order, loop-order, partitioning, whole mapping) - texts identical; (b) Lean model under the implementation's own set iteration order = LoopOrder.get_ranks().",
    design="5/C19",
    note="Trusted: Lean kernel; the harness's independent default; model = implementation sampled; flatten() tuples are outside the Lean model (text differential of rank-order only). Known finding: take-term-first Einsums take their default order from the first product term.",
    technique="Lean 4 proof (schedule-independent in-place expansion = canonical order) + omitted-vs-explicit text differential on the real compiler"),
 "C14": dict(
    category="proof",
    text="Lean theorems C14.rollup / rollup_registered / build_some: for every list of fusion blocks, every registration of components per Einsum and every assignment of component times, the expression built by the model of Collector.__build_time evaluates to the sum over blocks of the maximum over the block's active components of that component's time summed over the block's Einsums (max of nothing = 0), whatever order the components are enumerated in. Tie per real metrics compilation: model expression = the emitted right-hand side of metrics[\"time\"]; its leaves are exactly the registered (einsum, component) pairs, once each (evaluated in Lean); every registered pair has exactly one time assignment in the dump; each divisor equals (clock frequency | bandwidth) x instance count computed by the harness from the raw architecture YAML; executed dumps are rolled up independently.",
    design="5/C14",
    note="Trusted: Lean kernel; model = implementation compared per compilation (sampled over specifications); harness's reading of the architecture YAML; numerators (operation/bit counts) are not modelled; Int stands in for the ordered field of times.",
    technique="Lean 4 proof (denotational evaluation of the generated roll-up expression) + per-compilation correspondence and independent recomputation of divisors"),
 "C09": dict(
    category="proof",
    text="Lean theorem C09.gen_derives: for every HiFiber expression tree satisfying the decidable condition PrecOK, Python's expression grammar (transcribed as the derivation relation HF.Derives, stratified by binding strength, left-associative, no comparison chaining) derives from the printed token sequence exactly norm(tree): the tree without parenthesis nodes and with unparenthesised right-nested chains of ONE associative operator re-associated to the left - the only difference the property allows. Per emitted program (corpus + generated, all modes, several hash seeds) the check confirms Lean's printer reproduces the text, evaluates PrecOK on every expression of the compiler's tree, compares Lean's token model with CPython's tokenizer and norm(tree) with CPython's own parse; CoordAccess.build_expr is driven on random affine expressions.",
    design="5/C09",
    note="Trusted: Lean kernel; unambiguity of Python's grammar; the transcription of the grammar/tokens is validated against CPython's ast/tokenize on every text (sampled); statement/indentation structure is compared through CPython only. Fixed finding: n-way step substituted under a product without parentheses (commit 0f98053).",
    technique="Lean 4 proof (printer vs grammar derivation, by mutual well-founded recursion over the tree) + evaluation of PrecOK on the real compiler's trees + differential against CPython's parser"),
 "C15": dict(
    category="proof",
    text="Lean theorems C15.frame / copied_handles_fresh / pure over a heap model of Python's reference cells: for every heap, every set of cells owned by the caller's Bindings object and every sequence of mutations a compilation may perform through component handles, the caller's view is unchanged provided the handles are fresh copies (the repaired hand-out); with the hand-out of the code as found a default write is visible (shared_counterexample). Tie: deep structural snapshots of the parsed Einsum/Mapping/Architecture/Bindings/Format objects before and after HiFiber(...); the theorem's premise (no container held by a component is a cell of the caller's Bindings) is checked by identity on the real objects; second compilation from the same objects must give the same text; text after unrelated compilations in the same interpreter and in a fresh interpreter must be identical; module/class-level state of every teaal module is scanned before/after.",
    design="5/C15",
    note="Trusted: Lean kernel; the heap model covers the Bindings cells only - the other four objects and process-level state are decided by the snapshot/differential observations (sampled over specifications and histories). Fixed finding: Bindings mutated by component construction (commit b0425c0).",
    technique="Lean 4 frame theorem over a reference-cell heap model + snapshot/aliasing/repeatability/history differentials on the real compiler"),
 "C17": dict(
    category="proof",
    text="Lean theorems (Props/C17) over token-level models of the five Lark grammars: einsum_roundtrip - every well-formed Einsum (any number of terms, products and take() with selector, scalars, rank-0 accesses, signed integer coefficients) is read back exactly from its token sequence; directive/rankKey/stamp/level roundtrip AND exactness - the reader accepts a token sequence only if it is the rendering of what it returns, including the extractions num = N+1 and bare-name = position style. Tie: random abstract syntax rendered with random insignificant white space must come back identical from Lark (structural walk) and from the compiler's own extractors (CoordMath coefficients and signs, term structure, take selector/in_update, SpaceTime styles, Architecture instance counts, directive kind/size/leader as they reach the emitted calls); near-miss strings (token deleted/duplicated/swapped, blank inside a multi-character terminal) must be rejected by Lark whenever the Lean reader rejects them.",
    design="5/C17",
    note="Trusted: Lean kernel; Lark's lexer/parser and the character level (white space, NUMBER) are outside the model and compared by sampling; exactness for Einsum expressions is sampled (near-miss stream), not proved.",
    technique="Lean 4 round-trip/exactness proofs for token-level recursive-descent readers + differential against Lark and the IR extractors on rendered random syntax and near misses"),
 "C18": dict(
    category="proof",
    text="Lean theorems (Props/C18): for every instance of a rule as the property words it - a declaration listing a rank twice at any position; a term ranging over a rank another term lacks (any term, either direction); an n-way split anywhere after an occupancy split anywhere earlier in a stack; flatten() combined with other directives, on fewer than two ranks, on an index-math rank, on a rank also partitioned on its own, on an already flattened rank; a non-flatten directive on a rank tuple; a shape split keyed on a non-original rank - the guard written from the code (Tensor.__init__, Equation.__build_einsum_ranks, Partitioning.__nway_after_dyn/__check_flatten/__build_part_graph) fires; legal declarations pass. Tie (G8): every rule is injected into legal specifications at every position; the real pipeline must raise ValueError before returning text, the Lean guard models must fire on the same structured input and stay silent on the legal base, which must compile. Rules without a guard model (undeclared tensor, loop order projecting into the output / iterating an output-only flattened rank, Einsum without config) are decided by the injection differential alone.",
    design="5/C18",
    note="Trusted: Lean kernel; guard model = guard code compared per injected case; the injected specifications are the harness's reading of the rules; base specifications are sampled.",
    technique="Lean 4 proofs that rule instances imply the code-level guards + exhaustive-position rule injection against the real pipeline"),
 "C01": dict(
    category="proof",
    text="Lean theorems (Props/C01) over a point-list semantics of the emitted loop nest (union over terms of the intersection over the operands whose next rank is the loop rank; range loop for output-only ranks; update adds scalars x operand leaves, for take the selected leaf): run_eq_spec_times - for every number of loops, every concordant schedule (= every loop order and rank order), every extent and EVERY input content, the value accumulated at every output point equals the Einsum's mathematical value, for sums of products of any shape (scalars, rank-0 operands, reductions, output-only ranks, single-operand take); run_eq_spec_single - the same for a single take() term with any number of non-rank-0 operands (inputs without stored zeros); compile_wf/model_times - the nest the model compiler builds from ANY well-formed Einsum, loop order and rank orders satisfies the hypotheses. Outside this class the statement is false of the emitted nest (two Lean counterexamples = the two known findings). Tie per generated specification and sampled input: the model nest's result = what the real emitted program computes on the minifiber stand-in; the model's loop skeleton = the real tree's loops; Nest.spec = the harness's dense oracle; real = oracle.",
    design="5/C01",
    note="Trusted: Lean kernel; the reading of the fibertree API (Nest.run is the meaning of `for c, (z, (a, b)) in z << (a & b)` etc.), cross-checked against the minifiber stand-in; model compiler = real compiler is sampled (skeleton + results on 2-3 inputs per specification), not proved; header/footer statements (swizzles, output creation) are validated by execution only. Known findings: take() with >=2 operands inside a sum; rank-0 operand of take().",
    technique="Lean 4 proof by induction over the loop nest (co-iteration = dense sum) + model-compiler correspondence by skeleton comparison and differential execution"),
 "C02": dict(
    category="proof",
    text="PARTIAL. Lean theorems (Props/C02), for every tensor, step, depth and extent: split_merge_id (mergeRanks(depth, 1, absolute) undoes splitUniform(step, depth) point for point - the footer restores the original coordinates), key_bounds/key_unique (every coordinate lies in exactly one partition [k, k+step), also when the step does not divide or exceeds the extent), partition_sum (the two loops of a partitioned rank with the membership test sum to the loop over the original rank - nothing lost, nothing met twice), nway_cover (the step (N-1)//n+1 gives at most n partitions covering the extent). NOT proved: the composition of these with the C01 loop-nest theorem for nests over the expanded ranks in arbitrary level order. That part is decided per generated specification by executing the real partitioned program (G2: any subset of ranks, 1-3 levels, uniform/nway, literal/symbolic sizes, any permutation of levels) against the unpartitioned compile and the dense oracle on sampled inputs; the Lean operations are compared with the executing stand-in on random tensors.",
    design="5/C02",
    note="Trusted: Lean kernel; the fibertree contract of splitUniform/mergeRanks (FT/Ops.lean = minifiber, compared on random tensors); per-program correctness rests on execution over sampled inputs and specifications, not on a theorem.",
    technique="Lean 4 proofs of the partition algebra (partial) + differential execution of the real emitted programs against the unpartitioned program and a dense oracle"),
 "C03": dict(
    category="proof",
    text="PARTIAL. Lean theorems (Props/C03), for every fiber, chunk size and tensor: follower_agrees - when a follower is split with splitNonUniform at the keys of the leader's occupancy chunks (every n-th coordinate of the leader's fiber), every coordinate the leader holds lands in the group keyed by the leader's own chunk, so elements that must meet are neither separated nor met twice; groupOf_spec (a coordinate goes to the largest boundary not above it); leaderKeys_sorted; flatten_unflatten_id (unflattenRanks undoes flattenRanks(tuple) point for point). NOT proved: the composition with the loop nest (dynamic splits inside loops, several levels, occupancy beneath a shape split, occupancy of a flattened rank). That part is decided per generated specification (G3) by executing the real program against the unmapped compile and the dense oracle on sampled inputs with leader/follower of unequal support; the Lean fiber/tensor operations are compared with the executing stand-in on random data.",
    design="5/C03",
    note="Trusted: Lean kernel; the fibertree contract of splitEqual/splitNonUniform/flattenRanks (= minifiber, compared on random fibers/tensors); per-program correctness rests on execution over sampled inputs and specifications.",
    technique="Lean 4 proofs of the leader/follower grouping and flatten algebra (partial) + differential execution of the real emitted programs against the unmapped program and a dense oracle"),
 "C04": dict(
    category="proof",
    text="PARTIAL. Lean theorems (Props/C04), the arithmetic core for every stride a != 0, offset, extent and partition-coordinate list: project_inverse/project_hits/project_injective (the coordinates kept by project+prune correspond one-to-one to the index values q with w = a*q + r: nothing missing, nothing met twice, in exact arithmetic), tiling (the intervals make_interval builds tile [lo, Q): every q in exactly one, provided every partition coordinate is below the extent), unclipped_counterexample (that hypothesis is necessary), halo_cover (the window splitUniform(a*size, post_halo=b*(S-1)) provides contains every needed input coordinate). NOT proved: the composition with the loop nest. Decided by execution: every generated G4 specification is run against the dense oracle on sampled inputs and all output coordinates must be below the extent. The claimed class is: dyadic coefficients, at most one partition level on a rank with a halo, partition coordinates below the extent; outside it the unchanged compiler violates the property (known findings with witnesses); the evidence lists how many sampled specifications fall inside the class.",
    design="5/C04",
    note="Trusted: Lean kernel; IEEE-754 agreement of float and exact evaluation for dyadic divisors (compared on random fibers); minifiber's reading of project/prune/halos; correctness per program rests on execution over sampled inputs. Known findings: interval not clipped to the extent, float projection for non-dyadic coefficients, halo elements counted twice with two partition levels.",
    technique="Lean 4 proofs of the projection/tiling/halo arithmetic (partial) + differential execution of the real emitted programs against a dense oracle with extent checks"),
 "C07": dict(
    category="proof",
    text="PARTIAL. Lean theorems (Props/C07) about the tensor cursor, for every tensor and every history of operations (swizzle, update_ranks, from_fiber, pop, set_is_output, reset, any order and number): name_spells (the generated tensor name is <Name>_<active ranks> plus _flat exactly when flat and not the output), swizzle_perm (a successful swizzle only permutes the active ranks), init_ranks_const, reset_restores (after any history reset gives back the freshly declared tensor). The cursor model is compared with teaal.ir.tensor.Tensor on random operation sequences. The emitted programs are followed by the Lean rank-id interpreter RankIds.interp (executable reading of the rank-id effect of every fibertree tensor call, no soundness theorem): every rank-id precondition holds, no setRankIds reaches a user input even through aliases, every <Name>_<Ranks> variable ends spelling <Ranks>, each result is bound under <Output>_<declared-or-rank-order ranks>. Data-level clauses (inputs hold the same data afterwards; results in original coordinates) are observed by executing the programs on sampled inputs against the oracle.",
    design="5/C07",
    note="Trusted: Lean kernel; cursor model = implementation sampled; RankIds.interp and minifiber as readings of the fibertree API; data-level facts rest on execution over sampled inputs.",
    technique="Lean 4 proofs over the tensor-cursor state machine (partial) + Lean rank-id interpretation of the real emitted trees + execution snapshots of the inputs"),
 "C05": dict(
    category="proof",
    text="PARTIAL. Lean theorems (Props/C05) on the state shared between the translations of two Einsums: cursors_restored (for every set of declared tensors and every history of cursor operations a translation performs on them, Program.reset leaves exactly the freshly declared tensors, so Einsum i+1 starts from the stand-alone state), tmp_offset/tmp_monotone (the temporaries issued for a later Einsum are the stand-alone ones shifted by the number issued before). On the real compiler (G5 cascades): the text of the first i Einsums is a prefix of the whole text; the segment of Einsum i equals the text of Einsum i compiled alone with the same declarations and mapping after renaming temporaries by first occurrence, with exactly the predicted shift; after each Einsum every tensor cursor of the real Program equals a freshly declared tensor; the whole program executed on sampled inputs equals the chained dense evaluation with every intermediate bound under its declared/rank-order name.",
    design="5/C05",
    note="Trusted: Lean kernel; equality of the emitted statements and composition of results are observed on sampled cascades and inputs, not derived from a model of the emitters.",
    technique="Lean 4 proofs over the shared-state model (partial) + prefix/segment/stand-alone text differential and chained-oracle execution on the real compiler"),
 "C16": dict(
    category="proof",
    text="PARTIAL. Lean theorems (Props/C16) on the stamp algebra: stamps_injective (if every loop rank is stamped and each component - coordinate, position in the iterated fiber, coordinate relative to the enclosing partition level - is injective in the loop's own coordinate for fixed outer coordinates, two different iteration vectors never carry the same stamp, for every number of loops), perm_injective (distributing the components over the space and time tuples loses nothing), rel_coord_injective, slip_unique (with slip the time stamp counts earlier activities at the same space stamp: all (space, time) pairs are distinct, for every sequence). Decided by execution of generated spacetime programs (G6 over G1-G3 and an occupancy+shape+flatten family; every split of the loop ranks, all styles, slip on/off): same tensors as the Einsum and as the plain compile; one addActivity per executed update; every displayed tensor gets a point with one coordinate per rank, each slot filled by the loop variable of the rank displayed at that slot and naming an existing element; no duplicate stamps when levels are looped outermost to innermost.",
    design="5/C16",
    note="Trusted: Lean kernel; that the emitted stamp components are those functions of the loop coordinates is observed by execution on sampled programs/inputs; minifiber's canvas recorder. Coordinate-style stamps on flattened ranks are excluded (C06 known finding).",
    technique="Lean 4 proofs of stamp injectivity / slip uniqueness (partial) + execution of the real spacetime programs with an activity recorder"),
 "C08": dict(
    category="proof",
    text="PARTIAL. Lean theorems (Props/C08): split_comm (partitioning two different ranks of one tensor commutes, with the deeper depth shifted: the two data-dependent chains the implementation emits under different hash seeds produce the same tensor, for every tensor, steps and depths), swap_indep (for any statement semantics respecting its read/write footprint, adjacent statements with disjoint footprints can be exchanged without changing the final store); closedness of each variant is C06.DA_sound evaluated on every distinct text. Observed on the real compiler: the same specifications (partitioned G2/G3 families, occupancy+shape+flatten, double flatten, accelerator specifications and G7 in metrics mode) are compiled in processes that differ only in PYTHONHASHSEED (6 quick / 16 thorough, incl. 0); every distinct text is closed (Lean DA), all texts of a specification compute identical tensors on identical inputs and the Einsum's result, compiling twice in one process gives identical text, acceptance does not depend on the seed.",
    design="5/C08",
    note="Trusted: Lean kernel; hash seeds are sampled; which statement orders the implementation can produce is not modelled (the theorems quantify over all orders of independent statements / commuting splits); tensor equality of variants rests on execution over sampled inputs.",
    technique="Lean 4 commutation proofs (partial) + multi-hash-seed compilation differential with Lean definite-assignment validation of every variant and execution on identical inputs"),
 "C11": dict(
    category="proof",
    text="PARTIAL. Lean theorems (Props/C11) on the three tensor-level rewrites metrics mode performs: mem_coiterT / coiterT_perm (the coordinates co-iterated are exactly those present in every participating operand, so Fiber.intersection with the leader moved to the front visits the same coordinates as a & (b & ...), for every operand list), swizzle_comp (the extra swizzle to the merger's initial order followed by the loop-order swizzle is one swizzle), shapes are not part of a tensor's points. Observed on the real compiler: every generated architecture/bindings/format specification (G7 and a convolution + leader-follower family) is compiled in metrics mode and in plain mode and both are executed on identical inputs with inert observer stand-ins: identical tensors, equal to the Einsum's result.",
    design="5/C11",
    note="Trusted: Lean kernel; minifiber's reading of Fiber.intersection(style=leader-follower) and its inert Metrics/Traffic/Compute/Format stand-ins; non-interference of observer statements and payload/argument agreement rest on execution over sampled specifications and inputs. Known findings: leader not first factor (payloads swapped), unbound position variable with partitioned index math, eager trace before the lookup that binds the fiber.",
    technique="Lean 4 proofs of the metrics-mode rewrites (partial) + differential execution metrics-mode vs plain-mode vs dense oracle"),
 "C12": dict(
    category="proof",
    text="Lean theorem C12.traceOK_sound over an abstract machine of the Metrics/Traffic API (beginCollect/endCollect, trace registrations with consumable flag, consumeTrace, file names <prefix>-<rank>-<type>.csv produced at endCollect, filterTrace consuming two files and producing a third, traffic/sequencer models consuming files, intersector models created/fed/queried): if the checker TraceOK accepts a program (events inside loops only test the state; the machine accepts the program with every loop body run once) then the machine accepts EVERY execution - each loop any number of times, zero included - and ends in the same state. TraceOK is evaluated in Lean on the event structure it extracts from the tree the real compiler built, for the accelerator specifications of the corpus and generated G7 specifications under several hash seeds; in addition each Einsum's section opens and closes collection exactly once.",
    design="5/C12",
    note="Trusted: Lean kernel; the machine as my reading of the Metrics/Traffic contract (file naming, consumable registrations); the Lean event extractor HF.stmtItems (executable, no theorem); the registration and consumption views of the bindings inside the compiler are not modelled - the property is decided per compiled program (validator), the quantifier over bindings is sampled.",
    technique="Lean 4 proof of validator soundness (abstract API machine, all loop iteration counts) + evaluation of the validator on the real compiler's trees"),
}

NOT_YET = {}


def main():
    props = [json.loads(l) for l in open(os.path.join(VERIF, "properties.jsonl"))]
    checks, na = [], []
    for p in props:
        pid = p["id"]
        if pid in CHECKS:
            c = CHECKS[pid]
            checks.append(dict(
                property_id=pid, quick_cmd="./check %s --tier quick" % pid, thorough_cmd="./check %s --tier thorough" % pid,
                evidence_file="evidence/%s.json" % pid, replay_cmd_template="./check %s --replay {path}" % pid,
                engine="teaalverif-lean",
                level_claimed=dict(category=c["category"], text=c["text"], design_ref="DESIGN.md section " + c["design"]),
                level_note=c["note"], technique=c["technique"]))
        else:
            na.append(dict(property_id=pid, reason=NOT_YET.get(pid, "check not built yet in this round; planned per DESIGN.md section 5 (no obstacle in principle)")))
    m = dict(
        version=1,
        setup_cmd="cd lean && lake build 2>&1 | tail -3 && cd .. && /venv/bin/python harness/selftest.py",
        hooks=dict(guard="TEAAL_COMPILER_VERIF", enable="no source hooks are needed: everything is observed through public APIs of the working tree at /repo (imported first on sys.path)",
                   baseline_off_cmd="cd /repo && /venv/bin/python -m pytest -ra -q -p no:cacheprovider --timeout=900 --continue-on-collection-errors",
                   source_commits=[], add_only=True),
        engines=[dict(name="teaalverif-lean", path="lean", serves_properties=sorted(CHECKS),
                      kind_free_text="Lean 4 library TeaalVerif (models + property theorems in TeaalVerif/Props) with a JSON line-protocol driver (Main.lean); Python harness under harness/ runs the real compiler and the model side by side")],
        checks=checks,
        notes="See DESIGN.md. Every check: lake build + axiom audit of its Props file, then model/validator vs real compiler on generated cases, then failing-input search on any disagreement. Known findings: known_findings.json.",
        not_applicable=na)
    json.dump(m, open(os.path.join(VERIF, "MANIFEST.json"), "w"), indent=1)
    print("checks:", len(checks), "not_applicable:", len(na))


if __name__ == "__main__":
    main()
