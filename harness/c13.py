"""C13 — fusion blocks are a legal, ordered partition of the Einsums.
Theorems: Props/C13.lean (partition, legal, names_flatten: for every history).  Tie: the Lean model
`Fusion.step` is run on the same histories as the real `Fusion.add_einsum` (fed by real Program /
Hardware objects built from generated YAML, and by the full metrics compile of the corpus), blocks
compared after every step, and `BlockOK` is evaluated in Lean on the implementation's blocks."""
import copy, itertools, json, random
import common, specs

RANKS = ["M", "N", "K"]


def make_spec(hist):
    """hist: list of dict(loop, space, config, comps) -> YAML dict of a cascade T0, T1, ..."""
    decl = {"A": ["K", "M"], "B": ["K", "N"]}
    exprs, loop, st, bind = [], {}, {}, {}
    arch = {}
    for cfg in ("CfgA", "CfgB"):
        local = []
        for c in ("Mul0", "Mul1", "Add0"):
            local.append({"name": c + cfg[-1], "class": "compute", "attributes": {"type": "mul" if c[0] == "M" else "add"}})
        local.append({"name": "Isect" + cfg[-1], "class": "Intersector", "attributes": {"type": "two-finger"}})
        local.append({"name": "Seq" + cfg[-1], "class": "Sequencer", "attributes": {"num_ranks": 3}})
        local.append({"name": "Mem" + cfg[-1], "class": "DRAM", "attributes": {"bandwidth": 128}})
        # a merger is NOT a functional component: sharing it between Einsums must not influence the blocks
        local.append({"name": "Mrg" + cfg[-1], "class": "Merger", "attributes": {"inputs": 16, "comparator_radix": 16, "outputs": 1, "order": "fifo", "reduce": False}})
        arch[cfg] = [{"name": "System", "attributes": {"clock_frequency": 1000}, "local": local, "subtree": []}]
    for i, h in enumerate(hist):
        name = "T%d" % i
        decl[name] = ["M", "N"]
        exprs.append("%s[m, n] = A[k, m] * B[k, n]" % name)
        loop[name] = list(h["loop"])
        st[name] = {"space": list(h["space"]), "time": [r for r in h["loop"] if r not in h["space"]]}
        b = [{"config": h["config"], "prefix": "tmp/" + name}]
        for c, nonempty in h["comps"]:
            if c.startswith("Isect"):
                b.append({"component": c, "bindings": [{"rank": "K"}] if nonempty else []})
            elif c.startswith("Seq"):
                b.append({"component": c, "bindings": [{"rank": r} for r in h["loop"][:2]] if nonempty else []})
            elif c.startswith("Mem"):
                b.append({"component": c, "bindings": [{"tensor": "A", "rank": "K", "type": "payload", "format": "default"}] if nonempty else []})
            elif c.startswith("Mrg"):
                swz = h["loop"].index("M") < h["loop"].index("K")        # A[K, M] is swizzled only when M is looped before K
                b.append({"component": c, "bindings": [{"tensor": "A", "init-ranks": ["K", "M"], "final-ranks": ["M", "K"]}] if nonempty and swz else []})
            else:
                b.append({"component": c, "bindings": [{"op": "mul" if c[0] == "M" else "add"}] if nonempty else []})
        # the order of the entries of a binding list carries no meaning: the config/prefix entry sits at a varying position
        cfg_entry = b.pop(0)
        b.insert((i * 5 + len(b)) % (len(b) + 1) if i % 2 else 0, cfg_entry)
        bind[name] = b
    return {"einsum": {"declaration": decl, "expressions": exprs},
            "mapping": {"loop-order": loop, "spacetime": st},
            "architecture": arch, "bindings": bind}


def with_format(d):
    """add a format section so that the history specification also compiles in metrics mode (full HiFiber pipeline)"""
    d = copy.deepcopy(d)
    d["format"] = {t: {"default": dict([("rank-order", list(ranks))] + [(r, {"format": "C", "cbits": 32, "pbits": 32}) for r in ranks])}
                   for t, ranks in d["einsum"]["declaration"].items()}
    return d


def obs_of(hist):
    out = []
    for i, h in enumerate(hist):
        comps = [c for c, nonempty in h["comps"] if nonempty and not c.startswith(("Mem", "Mrg"))]
        out.append({"einsum": "T%d" % i, "loop": list(h["loop"]), "space": list(h["space"]), "config": h["config"], "comps": comps})
    return out


def run_impl(spec):
    """Drive the real Program/Hardware/Fusion like HiFiber.__translate does; blocks after every step."""
    from teaal.parse import Einsum, Mapping, Architecture, Bindings
    from teaal.ir.program import Program
    from teaal.ir.hardware import Hardware
    from teaal.ir.fusion import Fusion
    d = copy.deepcopy(spec)
    program = Program(Einsum(copy.deepcopy(d)), Mapping(copy.deepcopy(d)))
    hw = Hardware(Architecture(copy.deepcopy(d)), Bindings(copy.deepcopy(d)), program)
    fusion = Fusion(hw)
    steps = []
    for i in range(len(d["einsum"]["expressions"])):
        program.add_einsum(i)
        fusion.add_einsum(program)
        steps.append(copy.deepcopy(fusion.get_blocks()))
        program.reset()
    return steps


def gen_hist(rng, n):
    """random history; later Einsums mostly keep the previous loop order / space split / configuration, so that long
    blocks form and the component condition is the deciding one (first vs. third Einsum of a block, ...)"""
    hist = []
    sticky = rng.random() < 0.7
    for _ in range(n):
        if hist and sticky and rng.random() < 0.8:
            loop, space = list(hist[-1]["loop"]), list(hist[-1]["space"])
            if rng.random() < 0.15 and space:            # same prefix, different spatial tail
                space = space[:1] + rng.sample([r for r in loop if r not in space[:1]], rng.randint(0, 1))
        else:
            loop = RANKS[:]
            rng.shuffle(loop)
            k = rng.choice([0, 0, 1, 1, 1, 2, 3])
            space = rng.sample(loop, k)
        if hist and sticky and rng.random() < 0.85:
            cfg = hist[-1]["config"]
        else:
            cfg = rng.choice(["CfgA", "CfgA", "CfgB"])
        pool = [c + cfg[-1] for c in ("Mul0", "Mul1", "Add0", "Isect", "Seq", "Mem", "Mrg")]
        comps = [(c, rng.random() < 0.85) for c in rng.sample(pool, rng.choice([0, 1, 1, 1, 2, 2, 3]))]
        hist.append(dict(loop=loop, space=space, config=cfg, comps=comps))
    return hist


def gen_hist_merger(rng, n):
    """histories in which most Einsums sort on the configuration's (non-functional) merger, use distinct or shared functional units
    with non-empty bindings, and keep loop order / split / configuration: the blocks are decided by the functional units alone"""
    loop = rng.choice([["M", "K", "N"], ["M", "N", "K"], ["N", "M", "K"]])
    space = rng.choice([[], [loop[-1]], [loop[1]]])
    cfg = rng.choice(["CfgA", "CfgB"])
    hist = []
    for i in range(n):
        units = rng.sample(["Mul0", "Mul1", "Add0", "Isect", "Seq"], rng.choice([1, 1, 2]))
        comps = [(u + cfg[-1], True) for u in units]
        if rng.random() < 0.75:
            comps.insert(rng.randint(0, len(comps)), ("Mrg" + cfg[-1], True))
        hist.append(dict(loop=list(loop), space=list(space), config=cfg, comps=comps))
    return hist


def exhaustive_small():
    """all histories of length 2 over a reduced alphabet (every clause can flip independently)"""
    alphabet = []
    for loop, space in ((["M", "N", "K"], []), (["M", "N", "K"], ["N"]), (["M", "K", "N"], ["N"]),
                        (["M", "N", "K"], ["K", "N"]), (["M", "N", "K"], ["N", "K"])):
        for cfg in ("CfgA", "CfgB"):
            for comps in ([], [("Mul0", True)], [("Mul1", True)], [("Mul0", True), ("Add0", True)], [("Mul0", False)]):
                alphabet.append(dict(loop=loop, space=space, config=cfg, comps=[(c + cfg[-1], ne) for c, ne in comps]))
    return alphabet


def histories(ctx):
    rng = random.Random(ctx.seed * 7919 + 13)
    out = []
    # corpus of past / documented witnesses first
    w = dict(loop=["M", "N", "K"], space=[], config="CfgA", comps=[("Mul0A", True)])
    out.append([w, copy.deepcopy(w)])                                     # DESIGN §6.2 (same component twice)
    out.append([dict(loop=["M", "K", "N"], space=["K", "N"], config="CfgA", comps=[("Mul0A", True)]),
                dict(loop=["M", "K", "N"], space=["N"], config="CfgA", comps=[("Mul1A", True)])])   # several spatial ranks
    alpha = exhaustive_small()
    if ctx.tier == "thorough":
        for a in alpha:
            for b in alpha:
                out.append([copy.deepcopy(a), copy.deepcopy(b)])
        n_rand = 1500
    else:
        for _ in range(250):
            out.append([copy.deepcopy(rng.choice(alpha)), copy.deepcopy(rng.choice(alpha))])
        n_rand = 250
    for _ in range(n_rand):
        out.append(gen_hist(rng, rng.choice([1, 2, 3, 3, 4, 4, 5])))
    return out


def check_blocks_py(obs, blocks):
    """independent (Python) reading of the property on the implementation's blocks; returns reason or None"""
    flat = [e for b in blocks for e in b]
    if flat != [o["einsum"] for o in obs]:
        return "blocks do not list every Einsum exactly once in program order: %r" % (blocks,)
    byname = {o["einsum"]: o for o in obs}

    def pre(o):
        if not o["space"]:
            return o["loop"]
        return o["loop"][:o["loop"].index(o["space"][0])]
    for b in blocks:
        if not b:
            return "empty block"
        for x, y in itertools.combinations(b, 2):
            ox, oy = byname[x], byname[y]
            if ox["config"] != oy["config"]:
                return "%s and %s share a block but run on different configurations" % (x, y)
            if pre(ox) != pre(oy):
                return "%s and %s share a block but have different temporal prefixes %r / %r" % (x, y, pre(ox), pre(oy))
            if set(ox["comps"]) & set(oy["comps"]):
                return "%s and %s share a block and both bind %r" % (x, y, sorted(set(ox["comps"]) & set(oy["comps"])))
    return None


def dump_blocks_of(c):
    """the literal assigned to metrics["blocks"] in the emitted dump, via CPython's parser"""
    import ast
    res = []
    for node in ast.walk(ast.parse(c.text)):
        if isinstance(node, ast.Assign) and isinstance(node.targets[0], ast.Subscript):
            t = node.targets[0]
            if isinstance(t.value, ast.Name) and t.value.id == "metrics" and isinstance(t.slice, ast.Constant) and t.slice.value == "blocks":
                res.append(ast.literal_eval(node.value))
    return res


def run(ctx, only=None):
    ctx.rule = ("histories of 1-5 Einsums x 2 configurations x loop orders x space/time splits (0-3 spatial ranks) x bound functional-component sets "
                "(compute, intersector; empty binding lists; a memory component as distractor), driven through the real Program/Hardware/Fusion; "
                "non-trivial = history of >=2 Einsums; distinct = distinct history")
    ctx.trusted = ["Lean kernel; Props/C13 theorems (axioms listed under coverage.axioms)",
                   "correspondence Fusion.step (Lean) = Fusion.add_einsum (Python) is sampled, not proved",
                   "harness: generator of histories, extraction of Obs from the generated YAML"]
    ctx.assumptions = ["Obs (einsum name, loop ranks, space ranks, config, bound functional components) is read off the generated specification, not from the compiler"]
    hs = only if only is not None else histories(ctx)
    reqs, metas = [], []
    for hist in hs:
        spec = make_spec(hist)
        obs = obs_of(hist)
        try:
            steps = run_impl(spec)
        except ValueError as e:
            ctx.stat("rejected_ValueError"); continue
        except Exception as e:
            ctx.stat("compile_crash_" + type(e).__name__); continue
        ctx.case(hist, nontrivial=len(hist) >= 2)
        ctx.stat("len_%d" % len(hist))
        reqs.append({"op": "fusion", "obs": obs, "impl_steps": steps})
        metas.append((hist, spec, obs, steps))
    answers = common.lean_batch(reqs)
    for (hist, spec, obs, steps), a in zip(metas, answers):
        if "error" in a:
            raise common.InternalError("lean: " + a["error"])
        agree = a["model_steps"] == steps
        impl_ok = a["impl_ok"]
        ctx.ob(agree); ctx.ob(impl_ok)
        if len(steps[-1]) < len(hist):
            ctx.stat("histories_with_fusion")
        ctx.sample({"history": obs, "blocks": steps[-1]})
        if agree and impl_ok:
            continue
        # failing-input search: independent reading of the property on the implementation's blocks
        reason = None
        for k, blocks in enumerate(steps):
            reason = check_blocks_py(obs[:k + 1], blocks)
            if reason:
                break
        case = {"predicates": set(), "signature": None}
        if reason and "both bind" in reason:
            case["signature"] = "block-shares-functional-component"
            if a.get("model_old_steps") == steps:
                case["predicates"].add("first-einsum-of-block-components-not-recorded")
        f = ctx.match_finding(case)
        if f:
            ctx.known(f, f["what"]); continue
        rep = dict(kind="fusion-history", history=hist, obs=obs, spec_yaml=specs.dump_yaml(spec), impl_steps=steps,
                   model_steps=a["model_steps"], impl_blocks_legal_in_lean=impl_ok, reason=reason,
                   obligation="Fusion.step (Lean, proved legal by C13.partition/C13.legal) = Fusion.add_einsum (Python) on this history")
        ctx.violation(rep, found_input=reason is not None)
    # the blocks reported in the dump of real metrics compilations
    for name, d in specs.corpus():
        if not specs.has_metrics(d):
            continue
        c = specs.compile_spec(d, "metrics")
        if not c.ok:
            ctx.stat("corpus_" + str(c.err_kind)); continue
        reported = dump_blocks_of(c)
        impl = c.hf.fusion.get_blocks()
        n = len(d["einsum"]["expressions"])
        ok = len(reported) >= 1 and reported[-1] == impl and [e for b in impl for e in b] == [e for e in c.hf.program.get_all_einsums()]
        ctx.ob(ok)
        ctx.stat("corpus_metrics_dumps")
        if not ok:
            ctx.violation(dict(kind="metrics-blocks-literal", spec=name, reported=reported, fusion_blocks=impl,
                               reason="metrics[\"blocks\"] in the emitted dump differs from the fusion blocks / Einsum list"), True)


    # ... and of generated histories pushed through the whole metrics pipeline: dump literal = model blocks
    if only is None:
        rng = random.Random(ctx.seed * 31 + 5)
        full, freqs = [], []
        for _ in range(40 if ctx.tier == "quick" else 300):
            hist = gen_hist(rng, rng.choice([2, 3, 3, 4, 5]))
            d = with_format(make_spec(hist))
            c = specs.compile_spec(d, "metrics")
            if not c.ok:
                ctx.stat("full_pipeline_" + str(c.err_kind)); continue
            full.append((hist, d, dump_blocks_of(c)))
            freqs.append({"op": "fusion", "obs": obs_of(hist), "impl_steps": [c.hf.fusion.get_blocks()]})
        for (hist, d, reported), a in zip(full, common.lean_batch(freqs)):
            if "error" in a:
                raise common.InternalError("lean: " + a["error"])
            ok = len(reported) >= 1 and reported[-1] == a["model_steps"][-1]
            ctx.ob(ok); ctx.stat("full_pipeline_dumps")
            if not ok:
                ctx.violation(dict(kind="metrics-blocks-literal", history=obs_of(hist), yaml=d, reported=reported, model_blocks=a["model_steps"][-1],
                                   reason="metrics[\"blocks\"] in the emitted dump is %r; the fusion conditions give %r" % (reported[-1:] or None, a["model_steps"][-1])), True)


def replay(ctx, path):
    rep = json.load(open(path))
    if rep.get("kind") != "fusion-history":
        print("replay kind not supported:", rep.get("kind")); return 2
    run(ctx, only=[rep["history"]])
    return ctx.finish()
