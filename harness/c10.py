"""C10 — statement order respects every data and control dependence.
Theorems: Props/C10.lean (hoistAll_topo, hoistAll_perm, hoistOne_moved_legal, before_of_edge: every graph,
every topological order).  Tie: the real FlowGraph is exported before and after hoisting; Lean checks the
hypotheses (sorted0 is a topological order, descendant sets closed), runs the model `hoistAll` (= the
implementation's result?) and re-evaluates the conclusions on the implementation's sequence; the same for
random DAGs driven through the real __hoist.  The def-use dependences of the emitted statements are
checked with C06's DA on the same programs (a dependence missing from the graph shows up there)."""
import json, random
import common, pool, specs, flow, c06


def lean_req(f):
    return {"op": "hoist", "edges": f["edges"], "sorted0": f["sorted0"], "sorted1": f["sorted1"], "loops": f["loops"]}


def judge(ctx, f, a, origin):
    ok = a["agree"] and a["topo0"] and a["closed"] and a["topo1"] and a["perm1"] and f.get("same_graph", True)
    ctx.ob(a["agree"]); ctx.ob(a["topo1"] and a["perm1"]); ctx.ob(a["topo0"] and a["closed"])
    if ok:
        return
    names = f["nodes"]
    reason = []
    if not a["topo1"]:
        pos = {n: i for i, n in enumerate(f["sorted1"])}
        bad = [(names[x], names[y]) for x, y in f["edges"] if x in pos and y in pos and pos[x] > pos[y]]
        reason.append("hoisted sequence violates dependences %r" % bad[:3])
    if not a["perm1"]:
        reason.append("hoisting dropped or duplicated statements")
    if not a["topo0"]:
        reason.append("the sequence before hoisting is not a topological order of the graph")
    if not a["closed"]:
        reason.append("descendant sets are not closed under successors (networkx contract)")
    if not a["agree"] and not reason:
        reason.append("model hoistAll differs from the implementation: model %r impl %r" % ([names[i] for i in a["model"]], [names[i] for i in f["sorted1"]]))
    found = (not a["topo1"]) or (not a["perm1"])
    ctx.violation(dict(kind="hoist", origin=origin, flow=f, lean=a, reason="; ".join(reason),
                       obligation="Hoist.hoistAll (Lean; C10.hoistAll_topo/perm) = FlowGraph.__hoist, hypotheses Topo/Closed"), found)


def g10merge(rng):
    """metrics specification: one tensor partitioned (a shape split, optionally a flatten of the lower level with another rank) and
    bound to a hardware merger whose init-ranks / final-ranks name the PARTITIONED ranks: the extra swizzle into the merger's
    initial order can only run after the partitioning statements"""
    K, M = rng.choice([("K", "M"), ("J", "N")])
    flat = rng.random() < 0.6
    parts = {K: ["uniform_shape(%d)" % rng.randint(2, 5)]}
    if flat:
        parts["(%s, %s0)" % (M, K)] = ["flatten()"]
        ranks = [M + K + "0", K + "1"]
    else:
        ranks = [K + "1", K + "0", M]
    loop = list(ranks)
    rng.shuffle(loop)
    init = list(ranks)
    while init == loop and len(ranks) > 1:
        rng.shuffle(init)
    fmt = {"rank-order": list(loop)}
    for r in loop:
        fmt[r] = {"format": "C", "pbits": 64}
    return {"einsum": {"declaration": {"Z": [], "A": [K, M]}, "expressions": ["Z[] = A[%s, %s]" % (K.lower(), M.lower())]},
            "mapping": {"partitioning": {"Z": parts}, "loop-order": {"Z": loop}, "spacetime": {"Z": {"space": [], "time": list(loop)}}},
            "architecture": {"accel": [{"name": "level0", "attributes": {"clock_frequency": 10 ** 9},
                                        "local": [{"name": "Merger", "class": "Merger", "attributes": {"inputs": 16, "comparator_radix": 16}}]}]},
            "bindings": {"Z": [{"config": "accel", "prefix": "tmp/Z"}, {"component": "Merger", "bindings": [{"tensor": "A", "init-ranks": init, "final-ranks": list(loop)}]}]},
            "format": {"A": {"default": fmt}, "Z": {"default": {"rank-order": []}}}}


def rank_availability(f, d):
    """independent reading of one class of data dependences: a statement that permutes / reads ranks of a tensor which only exist
    after a partitioning statement of that tensor must have that statement among its ancestors in the graph"""
    import re
    import networkx as nx
    g = nx.DiGraph()
    g.add_nodes_from(range(len(f["nodes"])))
    g.add_edges_from((a, b) for a, b in f["edges"])
    decl = (d.get("einsum") or {}).get("declaration") or {}
    parts = []
    for i, n in enumerate(f["nodes"]):
        m = re.fullmatch(r"\(PartNode, (\w+), \((.*)\)\)", n)
        if m:
            key = [x.strip().strip("'") for x in m.group(2).split(",") if x.strip()]
            parts.append((i, m.group(1), key))
    probs = []
    for i, n in enumerate(f["nodes"]):
        m = re.fullmatch(r"\(SwizzleNode, (\w+), \[(.*)\], ([\w-]+)\)", n)
        if not m:
            continue
        t = m.group(1)
        ranks = [x.strip().strip("'") for x in m.group(2).split(",") if x.strip()]
        for r in ranks:
            if r in decl.get(t, []):
                continue
            for pi, pt, key in parts:
                if pt != t:
                    continue
                makes = (r == "".join(key)) if len(key) > 1 else bool(re.fullmatch(re.escape(key[0]) + r"\d+I?", r))
                if makes and not nx.has_path(g, pi, i):
                    probs.append("%s uses rank %s, which %s creates, but does not depend on it" % (n, r, f["nodes"][pi]))
    return probs


def fiber_availability(f, d=None):
    """independent reading of a second class of data dependences: `Tensor.fromFiber` on rank R of tensor T (a dynamic partitioning
    inside the loop nest) consumes T's fiber AT rank R, so the statement that produces that fiber must be among its ancestors:
    the root of a rank order that starts with R, or the loop / the getPayload over the rank written immediately before R"""
    import re
    import networkx as nx
    g = nx.DiGraph()
    g.add_nodes_from(range(len(f["nodes"])))
    g.add_edges_from((a, b) for a, b in f["edges"])
    lst = lambda s: [x.strip().strip("'") for x in s.split(",") if x.strip()]
    orders = {}
    for n in f["nodes"]:
        m = re.fullmatch(r"\((?:GetRootNode|SwizzleNode), (\w+), \[(.*?)\](?:, [\w-]+)?\)", n)
        if m:
            orders.setdefault(m.group(1), []).append(lst(m.group(2)))
    probs = []
    for i, n in enumerate(f["nodes"]):
        m = re.fullmatch(r"\(FromFiberNode, (\w+), (\w+)\)", n)
        if not m:
            continue
        t, r = m.group(1), m.group(2)
        before = {o[k - 1] for o in orders.get(t, []) for k in range(1, len(o)) if o[k] == r}
        # a rank that follows another one is iterated by the loop over the rank it follows (W2 by Q2)
        for einsum_parts in (((d or {}).get("mapping") or {}).get("partitioning") or {}).values():
            for key, stack in (einsum_parts or {}).items():
                for dirv in stack or []:
                    mf = re.fullmatch(r"follow\((\w+)\)", str(dirv))
                    if mf:
                        before |= {mf.group(1) + b[len(str(key)):] for b in before if b.startswith(str(key)) and re.fullmatch(r"\d*I?", b[len(str(key)):])}
        ok = False
        for a in nx.ancestors(g, i):
            an = f["nodes"][a]
            m2 = re.fullmatch(r"\(GetRootNode, (\w+), \[(.*)\]\)", an)
            if m2 and m2.group(1) == t and lst(m2.group(2))[:1] == [r]:
                ok = True
            m2 = re.fullmatch(r"\(GetPayloadNode, (\w+), \[(.*)\]\)", an)
            if m2 and m2.group(1) == t and lst(m2.group(2))[-1:] and lst(m2.group(2))[-1] in before:
                ok = True
            m2 = re.fullmatch(r"\(LoopNode, (\w+)\)", an)
            if m2 and m2.group(1) in before:
                ok = True
        if not ok:
            probs.append("%s consumes the fiber of %s at rank %s, but no statement producing that fiber (root at %s, loop or getPayload over %s) is among its ancestors"
                         % (n, t, r, r, sorted(before)))
    return probs


def nesting_problems(f):
    """loop openings and closings are properly nested in loop order with the update innermost: over the hoisted sequence the
    `LoopNode(r)` / `EndLoopNode(r)` statements form matching brackets (a stack), the body sits inside all of them, and the loops are
    opened in the order in which the exported loop list gives them"""
    import re
    stack, opened, probs = [], [], []
    body_depth = None
    for i in f["sorted1"]:
        n = f["nodes"][i]
        m = re.fullmatch(r"\(LoopNode, (\w+)\)", n)
        if m:
            stack.append(m.group(1)); opened.append(m.group(1)); continue
        m = re.fullmatch(r"\(EndLoopNode, (\w+)\)", n)
        if m:
            if not stack or stack[-1] != m.group(1):
                probs.append("loop %s is closed while %s is the innermost open loop" % (m.group(1), stack[-1] if stack else "none"))
                if m.group(1) in stack:
                    stack.remove(m.group(1))
            else:
                stack.pop()
            continue
        if n == "(OtherNode, Body)":
            body_depth = len(stack)
    if stack:
        probs.append("loops %r are never closed" % stack)
    if body_depth is not None and body_depth != len(opened):
        probs.append("the update sits inside %d of the %d loops" % (body_depth, len(opened)))
    return probs


def run(ctx):
    ctx.rule = ("flow graphs of corpus + generated G1-G5 (plain) and G7/corpus (metrics) specifications, exported before/after hoisting through the public IR; "
                "plus random DAGs with a loop chain and a random topological order driven through the real __hoist; non-trivial = at least one loop and one hoistable node; distinct = distinct (edges, order)")
    ctx.trusted = ["Lean kernel; Props/C10", "networkx: topological_sort / descendants contracts are re-checked per sample (Topo, Closed)",
                   "that the graph's edges contain every def-use dependence is not a graph fact: checked through C06's DA on the emitted text"]
    k = 1 if ctx.tier == "quick" else 6
    items = [dict(gen="corpus", count=0, modes=["plain", "metrics"], flow=True),
             dict(gen="g1", count=25 * k, modes=["plain"], flow=True), dict(gen="g2", count=25 * k, modes=["plain"], flow=True),
             dict(gen="g3", count=25 * k, modes=["plain"], flow=True), dict(gen="g3", count=12 * k, modes=["plain"], flow=True, opts={"variant": "occ2"}), dict(gen="g3z", count=10 * k, modes=["plain"], flow=True), dict(gen="g3u", count=15 * k, modes=["plain"], flow=True), dict(gen="g3dd", count=8 * k, modes=["plain"], flow=True), dict(gen="g3v", count=8 * k, modes=["plain"], flow=True), dict(gen="g4", count=30 * k, modes=["plain"], flow=True), dict(gen="g4b", count=40 * k, modes=["plain"], flow=True),
             dict(gen="g5", count=10 * k, modes=["plain"], flow=True)]
    if c06.has_g7():
        items.append(dict(gen="g7", count=25 * k, modes=["metrics"], flow=True))
    recs = pool.collect(ctx, items)
    reqs, metas = [], []
    for r in recs:
        if not r["ok"]:
            ctx.stat(("rejected_" if r["err_kind"] == "ValueError" else "compile_crash_") + str(r["err_kind"])); continue
        if "flow" not in r:
            ctx.stat("flow_export_failed"); ctx.notes.append("flow export failed: " + r.get("flow_error", "?")); continue
        for f in r["flow"]:
            moved = f["sorted0"] != f["sorted1"]
            ctx.case([f["edges"], f["sorted0"]], nontrivial=bool(f["loops"]) and moved)
            ctx.stat("graphs_" + r["mode"]); ctx.stat("hoisting_moved_something" if moved else "nothing_to_hoist")
            reqs.append(lean_req(f)); metas.append((f, "%s/%s" % (r["gen"], r["mode"]), r))
    rng = random.Random(ctx.seed * 31 + 5)
    # merger bindings on partitioned ranks: flow graphs exported directly (independently of the rest of the translation)
    for i in range(12 * k):
        d = g10merge(rng)
        try:
            fs = flow.flow_info(d, "metrics")
        except ValueError:
            ctx.stat("g10merge_rejected"); continue
        for f in fs:
            ctx.case([f["edges"], f["sorted0"]], nontrivial=bool(f["loops"]))
            ctx.stat("graphs_g10merge")
            reqs.append(lean_req(f)); metas.append((f, "g10merge/metrics", dict(yaml=d, mode="metrics", gen="g10merge")))
    for f, origin, r in list(metas):
        if r is None:
            continue
        probs = rank_availability(f, r["yaml"])
        ctx.ob(not probs); ctx.stat("rank_availability_checked")
        probs2 = fiber_availability(f, r["yaml"])
        if any("FromFiberNode" in n for n in f["nodes"]):
            ctx.ob(not probs2); ctx.stat("fiber_availability_checked")
        probs = probs + probs2
        probs3 = nesting_problems(f)
        ctx.ob(not probs3); ctx.stat("nesting_checked")
        probs = probs + probs3
        if probs:
            pos = {n: i for i, n in enumerate(f["sorted1"])}
            ctx.violation(dict(kind="missing-dependence", origin=dict(origin=origin, yaml=r["yaml"], mode=r["mode"]), flow=f, reason="; ".join(probs[:3]),
                               obligation="every statement comes after the partitioning statements that create the ranks it uses (independent reading of the dependences)"), True)
    for i in range(300 * k):
        f = flow.random_dag_case(rng)
        ctx.case([f["edges"], f["sorted0"]], nontrivial=f["sorted0"] != f["sorted1"])
        ctx.stat("random_dags")
        reqs.append(lean_req(f)); metas.append((f, "random-dag", None))
    ans = common.lean_batch(reqs)
    for (f, origin, r), a in zip(metas, ans):
        if "error" in a:
            raise common.InternalError("lean: " + a["error"])
        judge(ctx, f, a, origin if r is None else dict(origin=origin, yaml=r["yaml"], mode=r["mode"]))
        if len(ctx.samples) < 3 and f["sorted0"] != f["sorted1"]:
            ctx.sample({"origin": origin, "before": [f["nodes"][i] for i in f["sorted0"]][:12], "after": [f["nodes"][i] for i in f["sorted1"]][:12]})
    # def-use dependences of the emitted statements (shared with C06, including its known findings)
    ctx.findings = ctx.findings + common.load_findings("C06")
    c06.check_records(ctx, [r for r in recs if r["ok"]])


def replay(ctx, path):
    rep = json.load(open(path))
    if rep.get("kind") == "missing-dependence":
        o = rep["origin"]
        for f in flow.flow_info(o["yaml"], o["mode"]):
            probs = rank_availability(f, o["yaml"]) + fiber_availability(f, o["yaml"]) + nesting_problems(f)
            ctx.ob(not probs)
            if probs:
                ctx.violation(dict(kind="missing-dependence", origin=o, flow=f, reason="; ".join(probs[:3]), obligation=rep.get("obligation")), True)
        return ctx.finish()
    if rep.get("kind") != "hoist":
        return c06.replay(ctx, path)
    o = rep["origin"]
    if isinstance(o, dict):
        fs = flow.flow_info(o["yaml"], o["mode"])
    else:
        fs = [rep["flow"]]
    ans = common.lean_batch([lean_req(f) for f in fs])
    for f, a in zip(fs, ans):
        judge(ctx, f, a, o)
    return ctx.finish()
