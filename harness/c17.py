"""C17 — specification text is parsed into exactly the structure written.
Theorems: Props/C17 (einsum_roundtrip for every well-formed Einsum; roundtrip + exactness for directives, rank
tuples, stamps, level names — token level).  Tie: random abstract syntax is rendered to tokens and to text with
random insignificant white space; Lark's tree (walked structurally) and the compiler's own extractors (Program /
CoordMath / SpaceTime / Architecture / emitted partitioning calls) must give back what was written, and agree
with the Lean reader on the token sequence; near-miss strings (token deleted / duplicated / swapped, white space
inside a multi-character terminal) must be rejected by Lark whenever the Lean reader rejects them."""
import copy, json, random, re
import common, specs

NAMES_T = ["A", "B", "C", "Z", "T1", "I", "F", "Out_1", "take", "x"]
VARS = ["k", "m", "n", "q", "s", "w0", "i", "pi", "j"]
SCALARS = ["a", "b", "alpha"]


# ------------------------------------------------------------------------------------------ AST generators

def gen_iexpr(rng, simple=False):
    n = 1 if simple else rng.choice([1, 1, 1, 2, 2, 3])
    vs = rng.sample(VARS, n)
    out = []
    for v in vs:
        if simple or rng.random() < 0.5:
            out.append([None, v])
        else:
            # 0 and "-0" (written `- 0 * v`, read as the coefficient 0: the one place where two texts give one structure)
            out.append([rng.choice([-7, -3, -2, -1, 1, 2, 3, 4, 12, 0, "-0"]), v])
    return out


def gen_access(rng, name=None, simple=False):
    n = rng.choice([0, 1, 1, 2, 2, 3])
    return {"name": name or rng.choice(NAMES_T), "idx": [gen_iexpr(rng, simple) for _ in range(n)]}


def gen_factor(rng):
    if rng.random() < 0.2:
        return ["s", rng.choice(SCALARS)]
    return ["t", gen_access(rng)]


def gen_einsum(rng):
    terms = []
    for _ in range(rng.choice([1, 1, 2, 3])):
        if rng.random() < 0.25:
            fs = [["t", gen_access(rng)] for _ in range(rng.randint(1, 3))]
            terms.append({"kind": "take", "factors": fs, "sel": rng.randrange(len(fs) + 1)})
        else:
            terms.append({"kind": "times", "factors": [gen_factor(rng) for _ in range(rng.randint(1, 3))], "sel": None})
    return {"out": gen_access(rng, name="Z", simple=rng.random() < 0.7), "terms": terms}


def gen_directive(rng):
    sz = ["int", rng.choice([1, 2, 4, 16, 128])] if rng.random() < 0.6 else ["str", rng.choice(["K0", "TILE", "n_pe"])]
    k = rng.choice(["nway_shape", "uniform_occupancy", "uniform_shape", "flatten", "follow"])
    if k == "flatten":
        return {"kind": k}
    if k == "follow":
        return {"kind": k, "leader": rng.choice(["Q", "M", "K1"])}
    if k == "uniform_occupancy":
        return {"kind": k, "leader": rng.choice(["A", "B", "T1"]), "size": sz}
    return {"kind": k, "size": sz}


# ------------------------------------------------------------------------------------------ tokens

def coef_toks(c):
    if c == "-0":
        return [["S", "-"], ["D", 0]]
    return [["S", "-"], ["D", -c]] if c < 0 else [["D", c]]


def iexpr_toks(e):
    out = []
    for i, (c, v) in enumerate(e):
        if i:
            out.append(["S", "+"])
        if c is None:
            out.append(["N", v])
        else:
            out += coef_toks(c) + [["S", "*"], ["N", v]]
    return out


def access_toks(a):
    out = [["N", a["name"]], ["S", "["]]
    for i, e in enumerate(a["idx"]):
        if i:
            out.append(["S", ","])
        out += iexpr_toks(e)
    return out + [["S", "]"]]


def factor_toks(f):
    return [["N", f[1]]] if f[0] == "s" else access_toks(f[1])


def term_toks(t):
    if t["kind"] == "times":
        out = []
        for i, f in enumerate(t["factors"]):
            if i:
                out.append(["S", "*"])
            out += factor_toks(f)
        return out
    out = [["S", "take("]]
    for i, f in enumerate(t["factors"]):
        if i:
            out.append(["S", ","])
        out += factor_toks(f)
    return out + [["S", ","], ["D", t["sel"]], ["S", ")"]]


def einsum_toks(e):
    out = access_toks(e["out"]) + [["S", "="]]
    for i, t in enumerate(e["terms"]):
        if i:
            out.append(["S", "+"])
        out += term_toks(t)
    return out


def size_toks(sz):
    return [["D", sz[1]]] if sz[0] == "int" else [["N", sz[1]]]


def directive_toks(d):
    k = d["kind"]
    if k == "flatten":
        return [["S", "flatten("], ["S", ")"]]
    if k == "follow":
        return [["S", "follow("], ["N", d["leader"]], ["S", ")"]]
    if k == "uniform_occupancy":
        return [["S", "uniform_occupancy("], ["N", d["leader"]], ["S", "."]] + size_toks(d["size"]) + [["S", ")"]]
    return [["S", k + "("]] + size_toks(d["size"]) + [["S", ")"]]


def ranks_toks(rs):
    if len(rs) == 1:
        return [["N", rs[0]]]
    out = [["S", "("]]
    for i, r in enumerate(rs):
        if i:
            out.append(["S", ","])
        out.append(["N", r])
    return out + [["S", ")"]]


def stamp_toks(s):
    out = [["N", s["rank"]]]
    if s["written"] == "pos":
        out.append(["S", ".pos"])
    elif s["written"] == "coord":
        out.append(["S", ".coord"])
    return out


def level_toks(l):
    return [["N", l["name"]]] + ([["S", "[0.."], ["D", l["last"]], ["S", "]"]] if l["last"] is not None else [])


def render(toks, rng, layout=True):
    """text of a token sequence with random insignificant blanks/tabs between tokens"""
    out = []
    for i, (k, v) in enumerate(toks):
        s = str(v)
        if i and layout:
            ws = rng.choice(["", "", " ", " ", "  ", "\t", " \t "])
            prev = toks[i - 1]
            if not ws and prev[0] in ("N", "D") and k in ("N", "D"):
                ws = " "
            out.append(ws)
        elif i:
            prev = toks[i - 1]
            if prev[0] in ("N", "D") and k in ("N", "D"):
                out.append(" ")
        out.append(s)
    return "".join(out)


# ------------------------------------------------------------------------------------------ Lark side

def lark_access(t):
    """tensor / output subtree -> access"""
    name = str(t.children[0])
    ranks = t.children[1]
    idx = []
    for ip in ranks.children:
        e = []
        for it in ip.children:
            if it.data == "ijust":
                e.append([None, str(it.children[0])])
            elif it.data == "itimes":
                e.append([int(str(it.children[0])), str(it.children[1])])
            else:
                raise ValueError("unexpected index node " + str(it.data))
        idx.append(e)
    return {"name": name, "idx": idx}


def lark_factor(f):
    if str(f.data) == "var":
        return ["s", str(f.children[0])]
    if str(f.data) == "tensor":
        return ["t", lark_access(f)]
    raise ValueError("unexpected factor " + str(f.data))


def lark_einsum(tree):
    if tree.data != "einsum":
        raise ValueError("root " + str(tree.data))
    out = lark_access(tree.children[0])
    plus = tree.children[1]
    terms = []
    for t in plus.children:
        if t.data == "times":
            terms.append({"kind": "times", "factors": [lark_factor(f) for f in t.children], "sel": None})
        elif t.data == "take":
            terms.append({"kind": "take", "factors": [lark_factor(f) for f in t.children[:-1]], "sel": int(str(t.children[-1]))})
        else:
            raise ValueError("unexpected term " + str(t.data))
    return {"out": out, "terms": terms}


def lark_directive(tree):
    k = str(tree.data)
    d = {"kind": k}
    for c in tree.children:
        if c.data == "leader":
            d["leader"] = str(c.children[0])
        elif c.data == "int_sz":
            d["size"] = ["int", int(str(c.children[0]))]
        elif c.data == "str_sz":
            d["size"] = ["str", str(c.children[0])]
    return d


def real_parse(grammar, text):
    """(ok, ast | error type)"""
    from teaal.parse.equation import EquationParser
    from teaal.parse.partitioning import PartitioningParser
    from teaal.parse.spacetime import SpaceTimeParser
    from teaal.parse.level import LevelParser
    try:
        if grammar == "einsum":
            return True, lark_einsum(EquationParser.parse(text))
        if grammar == "directive":
            return True, lark_directive(PartitioningParser.parse_partitioning(text))
        if grammar == "ranks":
            t = PartitioningParser.parse_ranks(text)
            return True, [str(c) for c in t.children]
        if grammar == "stamp":
            t = SpaceTimeParser.parse(text)
            return True, [str(t.children[0]), str(t.data)]
        if grammar == "level":
            t = LevelParser.parse(text)
            return True, [str(t.children[0]), 1 if t.data == "single" else int(str(t.children[1])) + 1]
    except Exception as e:
        return False, type(e).__name__
    raise ValueError(grammar)


def expected(grammar, ast):
    if grammar == "stamp":
        return [ast["rank"], "coord" if ast["written"] == "coord" else "pos"]
    if grammar == "level":
        return [ast["name"], 1 if ast["last"] is None else ast["last"] + 1]
    if grammar == "einsum":
        # `- 0 * v` is read as the coefficient 0
        return json.loads(json.dumps(ast).replace('"-0"', "0"))
    return ast


# ------------------------------------------------------------------------------------------ extractors of the compiler (L2)

def l2_einsum(rng):
    """an Einsum with affine accesses compiled into the IR; read back through Program/Equation/CoordMath"""
    from sympy import symbols
    from teaal.parse import Einsum, Mapping
    from teaal.ir.program import Program
    q, s = "q", "s"
    a, b = rng.choice([-3, -2, -1, 1, 2, 3]), rng.choice([-2, -1, 1, 2, 4])
    order = rng.random() < 0.5
    idx = [[a, q], [b, s]] if order else [[b, s], [a, q]]
    idx = [[None if (c == 1 and rng.random() < 0.5) else c, v] for c, v in idx]
    take = rng.random() < 0.3
    fs = [["t", {"name": "I", "idx": [idx]}], ["t", {"name": "F", "idx": [[[None, s]]]}]]
    if rng.random() < 0.4:
        fs.insert(rng.randint(0, 2), ["s", "alpha"])
    if take:
        fs = [f for f in fs if f[0] == "t"]
        term = {"kind": "take", "factors": fs, "sel": rng.randrange(len(fs))}
    else:
        term = {"kind": "times", "factors": fs, "sel": None}
    e = {"out": {"name": "O", "idx": [[[None, q]]]}, "terms": [term]}
    text = render(einsum_toks(e), rng)
    d = {"einsum": {"declaration": {"I": ["W"], "F": ["S"], "O": ["Q"]}, "expressions": [text]}, "mapping": {}}
    p = Program(Einsum(copy.deepcopy(d)), Mapping(copy.deepcopy(d)))
    p.add_einsum(0)
    eq = p.get_equation()
    cm = p.get_coord_math()
    got_w = cm.get_all_exprs("w")
    want = (1 if idx[0][0] is None else idx[0][0]) * symbols(idx[0][1]) + (1 if idx[1][0] is None else idx[1][0]) * symbols(idx[1][1])
    problems = []
    if not any((g - want).simplify() == 0 for g in got_w):
        problems.append("CoordMath reads W = %s for the access I[%s]" % (got_w, render(iexpr_toks(idx), random.Random(0), layout=False)))
    names = [f[1]["name"] for f in term["factors"] if f[0] == "t"]
    tt = [[str(x) for x in t] for t in eq.get_term_tensors()]
    if tt != [names]:
        problems.append("term tensors %r, written %r" % (tt, names))
    tv = [[str(x) for x in t] for t in eq.get_term_vars()]
    if tv != [[f[1] for f in term["factors"] if f[0] == "s"]]:
        problems.append("term scalars %r, written %r" % (tv, [f[1] for f in term["factors"] if f[0] == "s"]))
    upd = [str(x) for x in eq.get_in_update()] if hasattr(eq, "get_in_update") else None
    if upd is not None:
        wfs = [f[1] if f[0] == "s" else f[1]["name"] for f in term["factors"]]
        want_upd = [True] * len(wfs) if not take else [i == term["sel"] for i in range(len(wfs))]
        fo = eq.get_factor_order()
        got_upd = {}
        for nm, (ti, fi) in fo.items():
            got_upd[nm] = eq.get_in_update()[ti][fi]
        if [got_upd.get(n) for n in wfs] != want_upd:
            problems.append("in_update %r for factors %r, written selector %r" % (got_upd, wfs, term["sel"]))
    p.reset()
    return text, problems


def l2_stamp(rng):
    from teaal.parse import Einsum, Mapping
    from teaal.ir.program import Program
    ranks = ["M", "N", "K"]
    rng.shuffle(ranks)
    k = rng.randint(0, 3)
    styles = {r: rng.choice(["bare", "pos", "coord"]) for r in ranks}

    def w(r):
        return render(stamp_toks({"rank": r, "written": styles[r]}), rng)
    d = {"einsum": {"declaration": {"A": ["K", "M"], "B": ["K", "N"], "Z": ["M", "N"]}, "expressions": ["Z[m, n] = A[k, m] * B[k, n]"]},
         "mapping": {"loop-order": {"Z": ranks}, "spacetime": {"Z": {"space": [w(r) for r in ranks[:k]], "time": [w(r) for r in ranks[k:]]}}}}
    p = Program(Einsum(copy.deepcopy(d)), Mapping(copy.deepcopy(d)))
    p.add_einsum(0)
    st = p.get_spacetime()
    problems = []
    if list(st.get_space()) != ranks[:k] or list(st.get_time()) != ranks[k:]:
        problems.append("space/time %r/%r, written %r/%r" % (st.get_space(), st.get_time(), ranks[:k], ranks[k:]))
    for r in ranks:
        want = "coord" if styles[r] == "coord" else "pos"
        if st.get_style(r) != want:
            problems.append("style of %s is %r, written %r" % (r, st.get_style(r), styles[r]))
    p.reset()
    return d["mapping"]["spacetime"], problems


def l2_level(rng):
    """level names as they reach the cleaned architecture: 1-2 configurations, three nested levels each; a level entry may carry stray
    keys (its own `num`, attributes), may be SHARED between the configurations (what a YAML anchor/alias produces: the same
    dict object reached twice), and may carry a near-miss name, which must be rejected wherever it stands"""
    from teaal.parse import Architecture
    def chain():
        lv = [{"name": rng.choice(["System", "Chip", "PE", "Stage0"]) + str(i), "last": rng.choice([None, 0, 1, 7, 31, 255])} for i in range(3)]
        texts = [render(level_toks(l), rng) for l in lv]
        nodes = [{"name": t} for t in texts]
        for n_ in nodes:
            if rng.random() < 0.25:
                n_["num"] = rng.choice([1, 2, 5, 64])          # a stray key: the instance count is what the NAME says
            if rng.random() < 0.2:
                n_["attributes"] = {"clock_frequency": 10 ** 9}
        nodes[0]["subtree"] = [nodes[1]]; nodes[1]["subtree"] = [nodes[2]]
        return lv, texts, nodes
    lv0, texts0, nodes0 = chain()
    cfgs = {"cfg0": [nodes0[0]]}
    want = {"cfg0": [[l["name"], 1 if l["last"] is None else l["last"] + 1] for l in lv0]}
    texts = list(texts0)
    if rng.random() < 0.5:
        if rng.random() < 0.5:
            # share a sub-chain of the first configuration (alias)
            k0 = rng.randint(0, 2)
            cfgs["cfg1"] = [nodes0[k0]]
            want["cfg1"] = want["cfg0"][k0:]
        else:
            lv1, texts1, nodes1 = chain()
            cfgs["cfg1"] = [nodes1[0]]
            want["cfg1"] = [[l["name"], 1 if l["last"] is None else l["last"] + 1] for l in lv1]
            texts += texts1
    miss = None
    if rng.random() < 0.2:
        # a near-miss name somewhere (possibly next to a stray num key): the whole architecture must be rejected
        tgt = rng.choice(nodes0)
        tgt["name"] = rng.choice([tgt["name"].replace("]", ""), tgt["name"] + "]", tgt["name"].replace("[0..", "[1.."), tgt["name"] + " x"]) if "[" in tgt["name"] else tgt["name"] + "[0.."
        miss = tgt["name"]
    d = {"architecture": cfgs}
    try:
        a = Architecture(copy.deepcopy(d))
    except ValueError:
        if miss is not None:
            return (texts, "near-miss " + miss), []
        raise
    except Exception as e:
        if miss is not None and type(e).__name__ in ("UnexpectedCharacters", "UnexpectedEOF", "UnexpectedInput", "UnexpectedToken"):
            return (texts, "near-miss " + miss), []
        raise
    if miss is not None:
        # independent reading of the level-name grammar (NAME | NAME "[0.." NUMBER "]", blanks/tabs ignored between tokens)
        ok_m = re.fullmatch(r"[ \t]*[A-Za-z_][A-Za-z0-9_]*[ \t]*(\[0\.\.[ \t]*\d+(\.\d+)?[ \t]*\])?[ \t]*", miss) is not None
        if not ok_m:
            return (texts, "near-miss " + miss), ["level name %r is outside the level-name grammar but the architecture was accepted" % miss]
        return (texts, "in-grammar variant " + miss), []
    spec = a.get_spec()["architecture"]
    probs = []
    for c, w in want.items():
        got, cur = [], spec[c][0]
        while cur is not None:
            got.append([cur["name"], cur.get("num")])
            cur = cur["subtree"][0] if cur.get("subtree") else None
        if got != w:
            probs.append("Architecture levels of %s: %r, written %r" % (c, got, w))
    return (texts, sorted(cfgs)), probs


def l2_directive(rng):
    """directive kind / size / leader as they reach the emitted partitioning calls"""
    kind = rng.choice(["uniform_shape", "nway_shape", "uniform_occupancy"])
    sz = ["int", rng.choice([2, 3, 5, 16])] if rng.random() < 0.6 else ["str", rng.choice(["TILE", "K0sz"])]
    leader = rng.choice(["A", "B"])
    dr = {"kind": kind, "size": sz}
    if kind == "uniform_occupancy":
        dr["leader"] = leader
    text = render(directive_toks(dr), rng)
    d = {"einsum": {"declaration": {"A": ["K"], "B": ["K"], "Z": []}, "expressions": ["Z[] = A[k] * B[k]"]},
         "mapping": {"partitioning": {"Z": {"K": [text]}}}}
    c = specs.compile_spec(d, "plain")
    if not c.ok:
        return text, ["directive %r rejected: %s %s" % (text, c.err_kind, c.err_msg)]
    s = str(sz[1])
    probs = []
    if kind == "uniform_shape" and not re.search(r"splitUniform\(%s, " % re.escape(s), c.text):
        probs.append("uniform_shape size %s not found in the emitted splitUniform calls" % s)
    if kind == "nway_shape" and not re.search(r"\(K - 1\) // %s \+ 1" % re.escape(s), c.text):
        probs.append("nway_shape count %s not found in the emitted step" % s)
    if kind == "uniform_occupancy":
        lines = [l for l in c.text.split("\n") if "splitEqual(" in l]
        ok = len(lines) == 1 and re.search(r"splitEqual\(%s\)" % re.escape(s), lines[0])
        # the leader is the tensor whose chain reaches splitEqual
        follower = [l for l in c.text.split("\n") if "splitNonUniform(" in l]
        lead_ok = re.search(r"splitNonUniform\(%s_k1" % leader.lower(), follower[0]) if follower else False
        if not ok or not lead_ok:
            probs.append("uniform_occupancy(%s.%s): emitted %r / %r" % (leader, s, lines, follower))
    return text, probs


# ------------------------------------------------------------------------------------------ near misses

MULTI = ["take(", "nway_shape(", "uniform_occupancy(", "uniform_shape(", "flatten(", "follow(", ".pos", ".coord", "[0.."]


def near_misses(rng, toks):
    out = []
    n = len(toks)
    if n >= 2:
        i = rng.randrange(n)
        out.append(("delete", toks[:i] + toks[i + 1:], None))
        i = rng.randrange(n)
        out.append(("duplicate", toks[:i + 1] + toks[i:], None))
        i = rng.randrange(n - 1)
        if toks[i] != toks[i + 1]:
            out.append(("swap", toks[:i] + [toks[i + 1], toks[i]] + toks[i + 2:], None))
    # structural near misses: a parenthesised single name, a dropped list element, a stray / trailing separator, empty brackets
    names = [i for i, (k, v) in enumerate(toks) if k == "N"]
    if names:
        i = rng.choice(names)
        out.append(("wrap-name", toks[:i] + [["S", "("], toks[i], ["S", ")"]] + toks[i + 1:], None))
    seps = [i for i, (k, v) in enumerate(toks) if k == "S" and v == ","]
    if seps:
        i = rng.choice(seps)
        if i + 1 < n:
            out.append(("drop-element", toks[:i] + toks[i + 2:], None))
        out.append(("double-separator", toks[:i + 1] + toks[i:], None))
    closers = [i for i, (k, v) in enumerate(toks) if k == "S" and v in (")", "]")]
    if closers:
        i = rng.choice(closers)
        out.append(("trailing-separator", toks[:i] + [["S", ","]] + toks[i:], None))
    opens = [i for i, (k, v) in enumerate(toks) if k == "S" and v == "("]
    for i in opens[:1]:
        depth, j = 0, i
        while j < n:
            if toks[j][0] == "S" and toks[j][1].endswith("("):
                depth += 1
            elif toks[j][0] == "S" and toks[j][1] == ")":
                depth -= 1
                if depth == 0:
                    break
            j += 1
        if j < n and j > i + 1:
            out.append(("empty-brackets", toks[:i + 1] + toks[j:], None))
    for i, (k, v) in enumerate(toks):
        if k == "S" and v in MULTI:
            j = rng.randrange(1, len(v))
            out.append(("space-in-terminal", None, (i, v[:j] + " " + v[j:])))
            break
    return out


def run(ctx):
    ctx.rule = ("random abstract syntax of the five grammars (Einsums with 1-3 terms, products/take, scalars, rank-0 accesses, signed coefficients; directives; rank tuples; stamps; "
                "level names) rendered with random blanks/tabs; plus near-miss strings; plus specifications whose text reaches the compiler's own extractors; "
                "non-trivial = rendering with at least 3 tokens; distinct = distinct text")
    ctx.trusted = ["Lean kernel; Props/C17 (token level)", "Lark (lexer, %ignore WS_INLINE, Earley) is external: its agreement with the token-level reader is measured on generated strings, not proved",
                   "the structural walk of Lark trees and the readers of the compiler's IR getters are harness code", "the converse (exactness) is proved for the four small grammars and for Einsum expressions without zero coefficients (C17.einsum_exact / einsum_bijection); near-miss strings are sampled"]
    rng = random.Random(ctx.seed * 48611 + 17)
    k = 1 if ctx.tier == "quick" else 8
    cases = []
    for _ in range(400 * k):
        e = gen_einsum(rng)
        cases.append(("einsum", e, einsum_toks(e)))
    for _ in range(150 * k):
        d = gen_directive(rng)
        cases.append(("directive", d, directive_toks(d)))
    for _ in range(80 * k):
        rs = rng.sample(["K", "M0", "N", "MK01", "J"], rng.choice([1, 2, 2, 3, 4]))
        cases.append(("ranks", rs, ranks_toks(rs)))
    for _ in range(80 * k):
        s = {"rank": rng.choice(["K", "M1", "MK00", "N"]), "written": rng.choice(["bare", "pos", "coord"])}
        cases.append(("stamp", s, stamp_toks(s)))
    for _ in range(80 * k):
        l = {"name": rng.choice(["PE", "System", "Stage0to1", "Chip_2"]), "last": rng.choice([None, 0, 3, 31, 16383])}
        cases.append(("level", l, level_toks(l)))
    reqs, metas = [], []
    for g, ast, toks in cases:
        text = render(toks, rng)
        ctx.case([g, text], nontrivial=len(toks) >= 3)
        ctx.stat("grammar_" + g)
        ok, got = real_parse(g, text)
        want = expected(g, ast)
        good = ok and got == want
        ctx.ob(good)
        if len(ctx.samples) < 4 and g == "einsum" and len(toks) > 12:
            ctx.sample({"grammar": g, "text": text})
        if not good:
            ctx.violation(dict(kind="parse-structure", grammar=g, text=text, written=want, parsed=got if ok else None, error=None if ok else got,
                               reason=("the text %r is rejected (%s)" % (text, got)) if not ok else "the text %r is parsed into %r, written %r" % (text, got, want)), True)
        reqs.append({"op": "parse_spec", "grammar": g, "toks": toks}); metas.append(("valid", g, text, want, ok, got))
        for how, mt, special in near_misses(rng, toks):
            if special is not None:
                i, broken = special
                t2 = list(toks)
                t2[i] = ["S", broken]
                mtext = render(t2, rng, layout=False)
                ok2, got2 = real_parse(g, mtext)
                ctx.ob(not ok2); ctx.stat("near_miss_" + how)
                if ok2:
                    ctx.violation(dict(kind="near-miss-accepted", grammar=g, text=mtext, parsed=got2, how=how,
                                       reason="white space inside the terminal %r is accepted: %r parsed as %r" % (toks[i][1], mtext, got2)), True)
                continue
            mtext = render(mt, rng)
            ok2, got2 = real_parse(g, mtext)
            reqs.append({"op": "parse_spec", "grammar": g, "toks": mt}); metas.append(("miss:" + how, g, mtext, None, ok2, got2))
    for (what, g, text, want, ok, got), a in zip(metas, common.lean_batch(reqs)):
        if "error" in a:
            raise common.InternalError("lean: " + a["error"])
        m = a["ast"]
        if what == "valid":
            agree = m == want
            ctx.ob(agree)
            if not agree:
                ctx.violation(dict(kind="model-reader", grammar=g, text=text, written=want, model=m,
                                   obligation="Grammar.parse* (C17 roundtrip) on the token sequence of the written syntax"), False)
        else:
            ctx.stat("near_miss_" + what.split(":")[1])
            # model rejects => Lark must reject; model accepts (the mutation is still in the grammar) => same structure
            if m is None:
                ctx.ob(not ok)
                if ok:
                    ctx.violation(dict(kind="near-miss-accepted", grammar=g, text=text, parsed=got, how=what,
                                       reason="text outside the grammar is accepted: %r parsed as %r" % (text, got)), True)
            else:
                same = ok and got == m
                ctx.ob(same); ctx.stat("near_miss_still_in_grammar")
                if not same:
                    ctx.violation(dict(kind="parse-structure", grammar=g, text=text, written=m, parsed=got if ok else None, error=None if ok else got,
                                       reason="the text %r is in the grammar (reads as %r) but the parser %s" % (text, m, ("returns %r" % (got,)) if ok else "rejects it (%s)" % got)), True)
    # the compiler's own extractors
    for fn, n in ((l2_einsum, 120 * k), (l2_stamp, 40 * k), (l2_level, 40 * k), (l2_directive, 60 * k)):
        for _ in range(n):
            try:
                what, probs = fn(rng)
            except Exception as e:
                # every text these extractors write is inside the grammar and legal (no rejection occurs on the unchanged tree):
                # a rejection - ValueError or a parser exception - is "text inside the grammar is not parsed as written"
                if not isinstance(e, ValueError) and not type(e).__module__.startswith("lark"):
                    raise
                ctx.stat("l2_rejected_" + fn.__name__)
                ctx.case([fn.__name__, "rejected", str(e)[:200]], nontrivial=True)
                ctx.ob(False)
                ctx.violation(dict(kind="extractor-rejected", extractor=fn.__name__, error="%s: %s" % (type(e).__name__, str(e)[:400]),
                                   reason="a specification written by the %s generator (inside the grammar, legal) is rejected: %s" % (fn.__name__, str(e)[:300])), True)
                continue
            ctx.case([fn.__name__, str(what)], nontrivial=True)
            ctx.stat(fn.__name__)
            ctx.ob(not probs)
            if probs:
                ctx.violation(dict(kind="extractor", extractor=fn.__name__, written=what, reason="; ".join(probs)), True)


def replay(ctx, path):
    rep = json.load(open(path))
    if "grammar" not in rep:
        print("replay kind not supported"); return 2
    ok, got = real_parse(rep["grammar"], rep["text"])
    if rep["kind"] == "near-miss-accepted":
        ctx.ob(not ok)
        if ok:
            ctx.violation(rep, True)
    else:
        good = ok and got == rep.get("written")
        ctx.ob(good)
        if not good:
            ctx.violation(rep, True)
    return ctx.finish()
