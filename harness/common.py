"""Shared plumbing of the checks: Lean driver, build + axiom audit, evidence, known findings, replay files."""
import hashlib, json, os, re, subprocess, sys, time, glob

VERIF = os.path.dirname(os.path.dirname(os.path.abspath(__file__)))
LEAN = os.path.join(VERIF, "lean")
REPO = os.environ.get("TEAAL_REPO", "/repo")
if REPO not in sys.path:
    sys.path.insert(0, REPO)          # /repo's working tree always wins over any installed copy
ALLOWED_AXIOMS = {"propext", "Classical.choice", "Quot.sound"}
FORBIDDEN = re.compile(r"\bsorry\b|\badmit\b|^axiom |native_decide|bv_decide|implemented_by|\bunsafe |maxHeartbeats 0", re.M)


class InternalError(Exception):
    pass


def sh(cmd, cwd=None, timeout=3600, input=None):
    p = subprocess.run(cmd, cwd=cwd, shell=isinstance(cmd, str), capture_output=True, text=True,
                       timeout=timeout, input=input)
    return p.returncode, p.stdout, p.stderr


# ------------------------------------------------------------------------------------------- Lean

def strip_comments(src):
    out, i, depth = [], 0, 0
    while i < len(src):
        if src.startswith("/-", i):
            depth += 1; i += 2; continue
        if depth and src.startswith("-/", i):
            depth -= 1; i += 2; continue
        if depth:
            i += 1; continue
        if src.startswith("--", i):
            j = src.find("\n", i)
            i = len(src) if j < 0 else j
            continue
        out.append(src[i]); i += 1
    return "".join(out)


def lean_sources():
    fs = sorted(glob.glob(os.path.join(LEAN, "TeaalVerif", "**", "*.lean"), recursive=True))
    fs += [os.path.join(LEAN, f) for f in ("TeaalVerif.lean", "Main.lean", "Audit.lean") if os.path.exists(os.path.join(LEAN, f))]
    return fs


def lean_recheck(prop):
    """thorough tier: independent re-check of the compiled Props module with leanchecker"""
    mods = ["TeaalVerif.Props." + os.path.basename(f)[:-5] for f in sorted(glob.glob(os.path.join(LEAN, "TeaalVerif", "Props", prop + "*.lean")))]
    rc, out, err = sh(["lake", "env", "leanchecker"] + mods, cwd=LEAN, timeout=1800)
    return rc == 0, (out + err)[-400:]


def lean_build_and_audit(prop):
    """lake build; grep for forbidden constructs; `#print axioms` of every theorem of Props/<prop>.lean.
    Returns dict(ok, obligations, discharged, theorems=[...], problems=[...])."""
    problems = []
    rc, out, err = sh(["lake", "build"], cwd=LEAN, timeout=3000)
    if rc != 0:
        problems.append("lake build failed: " + (out + err)[-1500:])
        return dict(ok=False, obligations=1, discharged=0, theorems=[], problems=problems, build_failed=True)
    h = hashlib.sha256()
    h.update(b"audit-v2")
    for f in lean_sources():
        src = open(f).read()
        h.update(f.encode()); h.update(src.encode())
        if f.endswith("Main.lean") or f.endswith("Json.lean"):
            continue
        m = FORBIDDEN.search(strip_comments(src))
        if m:
            problems.append("forbidden construct %r in %s" % (m.group(0), os.path.relpath(f, LEAN)))
    cache = os.path.join(LEAN, ".lake", "audit-cache.json")
    key = h.hexdigest()
    data = None
    if os.path.exists(cache):
        try:
            c = json.load(open(cache))
            if c.get("key") == key:
                data = c["data"]
        except Exception:
            data = None
    if data is None:
        data = run_audit()
        os.makedirs(os.path.dirname(cache), exist_ok=True)
        json.dump(dict(key=key, data=data), open(cache, "w"))
    thms = {k: v for k, v in data.items() if k.startswith(prop + ".") or k.startswith("Props." + prop + ".")}
    for t, ax in thms.items():
        bad = [a for a in ax if a not in ALLOWED_AXIOMS]
        if bad:
            problems.append("theorem %s depends on axioms %s" % (t, bad))
    if not thms:
        problems.append("no theorems found for " + prop)
    n = len(thms)
    return dict(ok=not problems, obligations=n, discharged=n if not problems else 0,
                theorems=sorted(thms), axioms={t: thms[t] for t in sorted(thms)}, problems=problems)


def prop_theorems():
    """Names of all theorems declared in Props/C*.lean files, qualified by the namespace they are declared in."""
    names = []
    for f in sorted(glob.glob(os.path.join(LEAN, "TeaalVerif", "Props", "C*.lean"))):
        src = strip_comments(open(f).read())
        ns = []
        for line in src.split("\n"):
            m = re.match(r"^namespace\s+([A-Za-z0-9_.]+)", line)
            if m:
                ns.append(m.group(1)); continue
            m = re.match(r"^end\s+([A-Za-z0-9_.]+)", line)
            if m and ns and ns[-1] == m.group(1):
                ns.pop(); continue
            m = re.match(r"^\s*(?:private\s+|protected\s+)?theorem\s+([A-Za-z0-9_.'?!]+)", line)
            if m:
                names.append(".".join(ns + [m.group(1)]))
    return names


def run_audit():
    names = prop_theorems()
    body = "import TeaalVerif\n" + "".join("#print axioms %s\n" % n for n in names)
    path = os.path.join(LEAN, "Audit.lean")
    open(path, "w").write(body)
    rc, out, err = sh(["lake", "env", "lean", "Audit.lean"], cwd=LEAN, timeout=1800)
    res = {}
    txt = out + err
    for m in re.finditer(r"^'(.+?)' depends on axioms: \[([^\]]*)\]", txt, re.M):
        res[m.group(1)] = [a.strip() for a in m.group(2).replace("\n", " ").split(",") if a.strip()]
    for m in re.finditer(r"^'(.+?)' does not depend on any axioms", txt, re.M):
        res[m.group(1)] = []
    for n in names:
        if n not in res:
            res[n] = ["<audit failed: %s>" % txt[-300:].replace("\n", " ")]
    return res


def lean_batch(requests, timeout=3000):
    """Run the driver over a list of request dicts; returns list of answer dicts (same order)."""
    if not requests:
        return []
    data = "\n".join(json.dumps(r, separators=(",", ":")) for r in requests) + "\n"
    if os.environ.get("VERIF_DUMP_LEAN"):
        open(os.environ["VERIF_DUMP_LEAN"], "a").write(data)
    rc, out, err = sh(["lake", "env", "lean", "--run", "Main.lean"], cwd=LEAN, timeout=timeout, input=data)
    lines = [l for l in out.split("\n") if l.strip()]
    if rc != 0 or len(lines) != len(requests):
        raise InternalError("lean driver failed rc=%s answers=%d/%d stderr=%s" % (rc, len(lines), len(requests), err[-800:]))
    return [json.loads(l) for l in lines]


# ------------------------------------------------------------------------------------------- findings

def load_findings(prop):
    path = os.path.join(VERIF, "known_findings.json")
    if not os.path.exists(path):
        return []
    return [f for f in json.load(open(path)) if f.get("property") == prop and f.get("status") == "known"]


# ------------------------------------------------------------------------------------------- context

class Ctx:
    def __init__(self, prop, tier, seed, level="proof"):
        self.prop, self.tier, self.seed, self.level = prop, tier, seed, level
        self.t0 = time.time()
        self.oblig = 0
        self.discharged = 0
        self.evaluations = 0
        self.distinct = set()
        self.samples = []
        self.stats = {}
        self.violations = []        # (replay dict, found_input)
        self.known_hits = []
        self.notes = []
        self.trusted = []
        self.assumptions = []
        self.theorems = []
        self.rule = ""
        self.findings = load_findings(prop)
        self.extra = {}

    def stat(self, key, n=1):
        self.stats[key] = self.stats.get(key, 0) + n

    def sample(self, s, cap=5):
        if len(self.samples) < cap:
            self.samples.append(s)

    def case(self, key, nontrivial=True):
        self.evaluations += 1
        if nontrivial:
            self.distinct.add(hashlib.sha1(json.dumps(key, sort_keys=True, default=str).encode()).hexdigest())

    def ob(self, ok, n=1):
        self.oblig += n
        if ok:
            self.discharged += n

    def known(self, finding, what, failed_obligations=1):
        """a failed obligation explained by a listed known finding: it is reported as KNOWN-FINDING and
        accounted under coverage.known_finding_obligations instead of obligations"""
        self.known_hits.append((finding["id"], what))
        self.failed_known = getattr(self, "failed_known", 0) + failed_obligations

    def violation(self, replay, found_input=True):
        self.violations.append((replay, found_input))

    def match_finding(self, case):
        """case: dict with 'predicates' (set of names true of the failing case) and 'signature'."""
        for f in self.findings:
            m = f.get("match", {})
            if m.get("predicate") in case.get("predicates", ()) and (m.get("signature") == "*" or m.get("signature") == case.get("signature")):
                return f
        return None

    def finish(self):
        os.makedirs(os.path.join(VERIF, "evidence"), exist_ok=True)
        os.makedirs(os.path.join(VERIF, "replays"), exist_ok=True)
        lines = []
        seen = set()
        for fid, what in self.known_hits:
            if fid in seen:
                continue
            seen.add(fid)
            lines.append("KNOWN-FINDING: property=%s %s" % (self.prop, what))
        for i, (rep, found) in enumerate(self.violations[:10]):
            path = os.path.join(VERIF, "replays", "%s-%s-%d.json" % (self.prop, self.seed, i))
            rep = dict(rep)
            rep.setdefault("property", self.prop)
            rep["failing_input_found"] = bool(found)
            json.dump(rep, open(path, "w"), indent=1, default=str)
            lines.append("VIOLATION property=%s replay=%s%s" % (self.prop, path, "" if found else " no-failing-input-found"))
        fk = getattr(self, "failed_known", 0)
        cov = dict(
            obligations=max(self.oblig - fk, 1), discharged=self.discharged, known_finding_obligations=fk,
            checker_cmd="cd lean && lake build && lake env lean Audit.lean   (axioms of every Props/%s theorem ⊆ {propext, Classical.choice, Quot.sound}; no sorry/native_decide)  + run-time obligations evaluated by `lake env lean --run Main.lean`" % self.prop,
            trusted_base=self.trusted,
            evaluations=max(self.evaluations, 1), distinct_nontrivial=len(self.distinct),
            rule=self.rule, samples=self.samples[:5] or ["<none>"], theorems=self.theorems,
            distribution=self.stats, known_findings_hit=[k for k, _ in self.known_hits], notes=self.notes)
        cov.update(self.extra)
        ev = dict(property_id=self.prop, tier=self.tier, seed=self.seed, level=self.level, coverage=cov,
                  assumptions=self.assumptions, wall_s=round(time.time() - self.t0, 2), violations=len(self.violations))
        json.dump(ev, open(os.path.join(VERIF, "evidence", self.prop + ".json"), "w"), indent=1, default=str)
        for l in lines:
            print(l)
        print("%s tier=%s seed=%s obligations=%d discharged=%d evaluations=%d distinct=%d violations=%d known=%d wall=%.1fs" % (
            self.prop, self.tier, self.seed, self.oblig, self.discharged, self.evaluations, len(self.distinct),
            len(self.violations), len(seen), time.time() - self.t0))
        return 1 if self.violations else 0
